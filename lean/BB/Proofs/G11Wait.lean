/-
  BB.Proofs.G11Wait — a forged blueprint split around a waituntil behind the edit point:
  `pre ++ mid ++ w :: rest` with `mid` waituntil-free and `w = waituntil(t)`.
  The sample counts of `mid` are the rounded stored durations, those of `rest` depend on `rest`
  and `t` only, and the segment-bound markers fall into three groups (`pre`, `mid ++ [w]`, `rest`).
-/
import BB.Proofs.G1Insert

namespace BB
open BP

/-! ### `starts` / `segMarks` / `laterMarks` on structured count lists -/

/-- helper (C03): start offsets of a count list with one more count at the end -/
theorem starts_snoc (a : List ℕ) (x acc : ℕ) : starts (a ++ [x]) acc = starts a acc ++ [acc + sumN a] := by
  rw [starts_append]; simp [starts]

/-- the start offsets do not depend on the length of the last segment -/
theorem starts_snoc_indep (a : List ℕ) (x y acc : ℕ) : starts (a ++ [x]) acc = starts (a ++ [y]) acc := by
  rw [starts_snoc, starts_snoc]

/-- helper (C03): no segments, no segment-bound markers -/
theorem segMarks_nil_left (sr : ℚ) (sel : Seg → Mark) (sts : List ℕ) : segMarks sr sel [] sts = [] := by
  cases sts <;> rfl

/-- start offsets beyond the last segment are ignored -/
theorem segMarks_append_left (sr : ℚ) (sel : Seg → Mark) (a : List Seg) (sa sc : List ℕ)
    (h : sa.length = a.length) : segMarks sr sel a (sa ++ sc) = segMarks sr sel a sa := by
  have := segMarks_append sr sel a [] sa sc h
  simpa [segMarks_nil_left] using this

/-- the marks of a middle group `midw` of a count list `np ++ (nmw ++ nr)` -/
theorem laterMarks_mid (sr : ℚ) (sel : Seg → Mark) (pre midw : List Seg) (np nmw nr : List ℕ)
    (hp : np.length = pre.length) (hm : nmw.length = midw.length) :
    laterMarks sr sel pre midw (np ++ (nmw ++ nr)) = segMarks sr sel midw (starts nmw (sumN np)) := by
  unfold laterMarks
  rw [List.take_left' hp, List.drop_left' hp, starts_append,
    segMarks_append_left sr sel midw _ _ (by rw [starts_length, hm])]

/-- the marks of the last group `rest` of a count list `np ++ (nmw ++ nr)` -/
theorem laterMarks_rest (sr : ℚ) (sel : Seg → Mark) (pre midw rest : List Seg) (np nmw nr : List ℕ)
    (hp : np.length = pre.length) (hm : nmw.length = midw.length) :
    laterMarks sr sel (pre ++ midw) rest (np ++ (nmw ++ nr)) =
      segMarks sr sel rest (starts nr (sumN np + sumN nmw)) := by
  have hl : (np ++ nmw).length = (pre ++ midw).length := by simp [hp, hm]
  rw [← List.append_assoc, laterMarks_eq sr sel (pre ++ midw) rest (np ++ nmw) nr hl, sumN_append]

/-- membership in `laterMarks` when the count list is at least as long as `pre ++ post` -/
theorem laterMarks_mem_prefix (sr : ℚ) (sel : Seg → Mark) (pre post : List Seg) (lens : List ℕ)
    (hl : pre.length + post.length ≤ lens.length) (m : Mark) :
    m ∈ laterMarks sr sel pre post lens ↔
      ∃ (j : ℕ) (_ : j < post.length), (sel post[j]).2 ≠ 0 ∧
        m = ((((sumN (lens.take (pre.length + j)) : ℕ) : ℤ) : ℚ) / sr + (sel post[j]).1, (sel post[j]).2) := by
  have hsplit : lens = lens.take pre.length ++ ((lens.drop pre.length).take post.length ++
      (lens.drop pre.length).drop post.length) := by
    rw [List.take_append_drop, List.take_append_drop]
  have hp : (lens.take pre.length).length = pre.length := by simp; omega
  have hm : ((lens.drop pre.length).take post.length).length = post.length := by simp; omega
  have e1 : laterMarks sr sel pre post lens =
      laterMarks sr sel pre post (lens.take pre.length ++ (lens.drop pre.length).take post.length) := by
    conv_lhs => rw [hsplit]
    rw [laterMarks_mid sr sel pre post _ _ _ hp hm, laterMarks_eq sr sel pre post _ _ hp]
  rw [e1, laterMarks_mem sr sel pre post _ (by simp; omega)]
  have e2 : ∀ j, j < post.length →
      (lens.take pre.length ++ (lens.drop pre.length).take post.length).take (pre.length + j) =
        lens.take (pre.length + j) := by
    intro j hj
    have : lens.take pre.length ++ (lens.drop pre.length).take post.length = lens.take (pre.length + post.length) := by
      rw [List.take_add]
    rw [this, List.take_take]
    congr 1
    omega
  constructor
  · rintro ⟨j, hj, h1, h2⟩
    exact ⟨j, hj, h1, by rw [h2, e2 j hj]⟩
  · rintro ⟨j, hj, h1, h2⟩
    exact ⟨j, hj, h1, by rw [h2, e2 j hj]⟩

/-! ### a forged blueprint split at an arbitrary point, with the resolved durations exposed -/

/-- `forge_split` with the resolved durations of both parts exposed -/
theorem forge_split_full (b : BP) (pre post : List Seg) (hb : b.segs.map Seg.body = (pre ++ post).map Seg.body)
    (f : Forged) (hf : forgeBP b = .ok f) :
    ∃ sr dp dq, b.SR = .num sr ∧ resolveGo pre 0 = .ok dp ∧ resolveGo post (0 + sumR dp) = .ok dq ∧
      dp.length = pre.length ∧ dq.length = post.length ∧ b.resolveWaits = .ok (dp ++ dq) ∧
      (∀ d ∈ dp ++ dq, 2 ≤ rhe (d * sr)) ∧
      f.blocks.map Blk.len = dp.map (fun x => (rhe (x * sr)).toNat) ++ dq.map (fun x => (rhe (x * sr)).toNat) ∧
      f.N = sumN (dp.map (fun x => (rhe (x * sr)).toNat) ++ dq.map (fun x => (rhe (x * sr)).toNat)) ∧
      f.m1 = paint f.N ((b.marker1 ++
        (segMarks sr (·.m1) pre (starts (dp.map (fun x => (rhe (x * sr)).toNat)) 0) ++
          segMarks sr (·.m1) post (starts (dq.map (fun x => (rhe (x * sr)).toNat))
            (sumN (dp.map (fun x => (rhe (x * sr)).toNat)))))).map (window f.N sr)) ∧
      f.m2 = paint f.N ((b.marker2 ++
        (segMarks sr (·.m2) pre (starts (dp.map (fun x => (rhe (x * sr)).toNat)) 0) ++
          segMarks sr (·.m2) post (starts (dq.map (fun x => (rhe (x * sr)).toNat))
            (sumN (dp.map (fun x => (rhe (x * sr)).toNat)))))).map (window f.N sr)) := by
  obtain ⟨sr, ds, ns, hsr, hd, hn, _, hfa⟩ := (forge_ok_iff b f).mp hf
  obtain ⟨hge, hns⟩ := countsGo_ok sr ds ns hn
  have hd' : resolveGo (pre ++ post) 0 = .ok ds := by
    rw [← resolveGo_body b.segs (pre ++ post) 0 hb]; exact hd
  obtain ⟨dp, dq, hpres, hq, rfl, hpl⟩ := resolveGo_append_inv pre post 0 ds hd'
  have hql : dq.length = post.length := resolveGo_length _ _ _ hq
  have hlenb : b.segs.length = pre.length + post.length := by
    have := congrArg List.length hb; simpa using this
  have hnsplit : ns = dp.map (fun x => (rhe (x * sr)).toNat) ++ dq.map (fun x => (rhe (x * sr)).toNat) := by
    rw [hns, List.map_append]; rfl
  have hnp : (dp.map (fun x => (rhe (x * sr)).toNat)).length = pre.length := by simp [hpl]
  have hasm : assemble b sr ns = assemble { b with segs := pre ++ post } sr ns :=
    assemble_body b { b with segs := pre ++ post } hb rfl rfl sr ns
  have hsplit := assemble_split_m { b with segs := pre ++ post } pre post rfl sr _
    (dq.map (fun x => (rhe (x * sr)).toNat)) hnp
  rw [← hnsplit, ← hasm, ← hfa] at hsplit
  have hN : f.N = sumN ns := by rw [hfa]; rfl
  refine ⟨sr, dp, dq, hsr, hpres, hq, hpl, hql, hd, ?_, ?_, ?_, ?_, ?_⟩
  · intro d hdm
    exact hge d hdm
  · rw [hfa]; simp only [assemble]
    rw [mkBlocks_lens sr b.segs ns (by rw [hnsplit]; simp [hpl, hql, hlenb]), hnsplit]
  · rw [hN, hnsplit]
  · rw [hN]; exact hsplit.1
  · rw [hN]; exact hsplit.2

/-! ### resolution of `mid ++ waituntil(t) :: rest` -/

/-- a waituntil-free `mid` followed by `waituntil(t)`: `mid` resolves to its stored durations, the
    waituntil gets what is left until `t`, and `rest` is resolved from `t` on - whatever came before -/
theorem resolveGo_mid_wait (mid : List Seg) (w : Seg) (rest : List Seg) (el t : ℚ) (tl : List Val) (dq : List ℚ)
    (hmid : ∀ s ∈ mid, s.fn.isWait = false) (hw : w.fn.isWait = true) (ha : w.args = .num t :: tl)
    (h : resolveGo (mid ++ w :: rest) el = .ok dq) :
    ∃ drest, resolveGo rest t = .ok drest ∧ (mid.filterMap durOf?).length = mid.length ∧
      el + sumR (mid.filterMap durOf?) ≤ t ∧
      dq = mid.filterMap durOf? ++ (t - (el + sumR (mid.filterMap durOf?))) :: drest := by
  obtain ⟨dm, drest, hm, hl, hle, hr, rfl⟩ := resolveGo_wait_split mid w rest el t tl dq hw ha h
  have e := resolveGo_nowait_ok mid el dm hmid hm
  subst e
  exact ⟨drest, hr, hl, hle, rfl⟩

/-- **A forged blueprint split around a waituntil behind the split point.**  The segment list is,
    up to names, `pre ++ (mid ++ w :: rest)` with `mid` waituntil-free and `w = waituntil(t)`.
    Then the block lengths are `np ++ ((nm ++ [nw]) ++ nr)` where `nm` are the rounded *stored*
    durations of `mid`, `nr` the rounded durations of `rest` resolved from time `t` on (neither
    depends on `pre`), and both marker arrays are painted from the absolute markers and the
    segment-bound markers of the three groups `pre`, `mid ++ [w]`, `rest`. -/
theorem forge_split_wait (b : BP) (pre mid : List Seg) (w : Seg) (rest : List Seg) (t : ℚ) (tl : List Val)
    (hb : b.segs.map Seg.body = (pre ++ (mid ++ w :: rest)).map Seg.body)
    (hmid : ∀ s ∈ mid, s.fn.isWait = false) (hw : w.fn.isWait = true) (ha : w.args = .num t :: tl)
    (f : Forged) (hf : forgeBP b = .ok f) :
    ∃ sr dp drest np nw nr, b.SR = .num sr ∧ resolveGo pre 0 = .ok dp ∧ resolveGo rest t = .ok drest ∧
      np = dp.map (fun x => (rhe (x * sr)).toNat) ∧ nr = drest.map (fun x => (rhe (x * sr)).toNat) ∧
      np.length = pre.length ∧ nr.length = rest.length ∧
      ((mid.filterMap durOf?).map (fun x => (rhe (x * sr)).toNat)).length = mid.length ∧
      b.resolveWaits = .ok (dp ++ (mid.filterMap durOf? ++
        (t - (0 + sumR dp + sumR (mid.filterMap durOf?))) :: drest)) ∧
      nw = (rhe ((t - (0 + sumR dp + sumR (mid.filterMap durOf?))) * sr)).toNat ∧ 2 ≤ nw ∧
      f.blocks.map Blk.len = np ++ (((mid.filterMap durOf?).map (fun x => (rhe (x * sr)).toNat) ++ [nw]) ++ nr) ∧
      f.N = sumN (np ++ (((mid.filterMap durOf?).map (fun x => (rhe (x * sr)).toNat) ++ [nw]) ++ nr)) ∧
      f.m1 = paint f.N ((b.marker1 ++ (segMarks sr (·.m1) pre (starts np 0) ++
        (segMarks sr (·.m1) (mid ++ [w])
            (starts ((mid.filterMap durOf?).map (fun x => (rhe (x * sr)).toNat) ++ [nw]) (sumN np)) ++
          segMarks sr (·.m1) rest (starts nr
            (sumN np + sumN ((mid.filterMap durOf?).map (fun x => (rhe (x * sr)).toNat) ++ [nw])))))).map
          (window f.N sr)) ∧
      f.m2 = paint f.N ((b.marker2 ++ (segMarks sr (·.m2) pre (starts np 0) ++
        (segMarks sr (·.m2) (mid ++ [w])
            (starts ((mid.filterMap durOf?).map (fun x => (rhe (x * sr)).toNat) ++ [nw]) (sumN np)) ++
          segMarks sr (·.m2) rest (starts nr
            (sumN np + sumN ((mid.filterMap durOf?).map (fun x => (rhe (x * sr)).toNat) ++ [nw])))))).map
          (window f.N sr)) := by
  obtain ⟨sr, dp, dq, hsr, hp, hq, hpl, hql, hres, hge, hlens, hN, hm1, hm2⟩ :=
    forge_split_full b pre (mid ++ w :: rest) hb f hf
  obtain ⟨drest, hr, hml, _, rfl⟩ := resolveGo_mid_wait mid w rest (0 + sumR dp) t tl dq hmid hw ha hq
  have hrl : drest.length = rest.length := resolveGo_length _ _ _ hr
  set dm := mid.filterMap durOf? with hdm
  set c : ℚ → ℕ := fun x => (rhe (x * sr)).toNat with hc
  have hcnt : (dm ++ (t - (0 + sumR dp + sumR dm)) :: drest).map c =
      (dm.map c ++ [c (t - (0 + sumR dp + sumR dm))]) ++ drest.map c := by simp
  have hsegs : mid ++ w :: rest = (mid ++ [w]) ++ rest := by simp
  have hmwl : (starts (dm.map c ++ [c (t - (0 + sumR dp + sumR dm))]) (sumN (dp.map c))).length =
      (mid ++ [w]).length := by rw [starts_length]; simp [hml]
  have h2 : 2 ≤ c (t - (0 + sumR dp + sumR dm)) := by
    have := hge (t - (0 + sumR dp + sumR dm)) (by simp)
    simp only [hc]; omega
  rw [hcnt] at hlens hN hm1 hm2
  refine ⟨sr, dp, drest, dp.map c, c (t - (0 + sumR dp + sumR dm)), drest.map c, hsr, hp, hr, rfl, rfl,
    by simp [hpl], by simp [hrl], by simp [hml], hres, rfl, h2, hlens, hN, ?_, ?_⟩
  · rw [hm1, hsegs, starts_append, segMarks_append sr _ (mid ++ [w]) rest _ _ hmwl]
  · rw [hm2, hsegs, starts_append, segMarks_append sr _ (mid ++ [w]) rest _ _ hmwl]

/-! ### does the insertion still fit before `t`? -/

/-- **Forging with one ordinary segment inserted in front of a waituntil.**  `b.segs = pre ++ (mid ++
    w :: rest)`, `mid` waituntil-free, `w = waituntil(t)`; an ordinary callable of numeric duration
    `d` is inserted at position `|pre|` and the call is accepted; `b` forges.  With `left = t −
    (elapsed(pre) + d + Σ mid)` the time left for the waituntil after the insertion: if `left < 0` the
    new blueprint does not forge (ValueError); if `left ≥ 0`, the new segment gets at least two samples
    and the shrunken wait still gets at least two samples, it forges. -/
theorem forge_insert_before_wait (b : BP) (pre mid : List Seg) (w : Seg) (rest : List Seg) (t : ℚ) (tl : List Val)
    (fn : Fn) (args : List Val) (d : ℚ) (name : Val)
    (hb : b.segs = pre ++ (mid ++ w :: rest)) (hmid : ∀ s ∈ mid, s.fn.isWait = false)
    (hw : w.fn.isWait = true) (ha : w.args = .num t :: tl) (hfn : fn.special = false)
    (hacc : (b.insertSegment (pre.length : ℤ) fn args (.num d) name).err = none)
    (f : Forged) (hf : forgeBP b = .ok f) :
    ∃ sr dp, b.SR = .num sr ∧ resolveGo pre 0 = .ok dp ∧
      (t - (0 + sumR dp + d + sumR (mid.filterMap durOf?)) < 0 →
        forgeBP (b.insertSegment (pre.length : ℤ) fn args (.num d) name).st = .error .value) ∧
      (0 ≤ t - (0 + sumR dp + d + sumR (mid.filterMap durOf?)) → 2 ≤ rhe (d * sr) →
        2 ≤ rhe ((t - (0 + sumR dp + d + sumR (mid.filterMap durOf?))) * sr) →
        ∃ f', forgeBP (b.insertSegment (pre.length : ℤ) fn args (.num d) name).st = .ok f') := by
  obtain ⟨sr, dp, dq, hsr, hp, hq, _, _, _, hge, _⟩ :=
    forge_split_full b pre (mid ++ w :: rest) (by rw [hb]) f hf
  obtain ⟨_, _, _, _, _, _, hbs, _⟩ := (forge_ok_iff b f).mp hf
  obtain ⟨dm0, dwr, hm0, _, _, _⟩ := resolveGo_append_inv mid (w :: rest) _ dq hq
  have edm : dm0 = mid.filterMap durOf? := resolveGo_nowait_ok mid _ dm0 hmid hm0
  subst edm
  obtain ⟨drest, hr, _, _, rfl⟩ := resolveGo_mid_wait mid w rest (0 + sumR dp) t tl dq hmid hw ha hq
  obtain ⟨nm, hbody, hm1, hm2, hSR⟩ := insertSegment_split b pre (mid ++ w :: rest) fn args (.num d) name hb hacc
  set dm := mid.filterMap durOf? with hdm
  set b2 : BP := { b with segs := pre ++ newSeg nm fn args (.num d) :: (mid ++ w :: rest) } with hb2
  have hforge : forgeBP (b.insertSegment (pre.length : ℤ) fn args (.num d) name).st = forgeBP b2 :=
    forgeBP_body _ _ hbody hm1 hm2 hSR
  have hwf : fn.isWait = false := by simp [Fn.isWait, hfn]
  have hmid_el : ∀ el, resolveGo mid el = .ok dm := by
    intro el
    rw [resolveGo_nowait_indep mid el (0 + sumR dp) hmid, hm0]
  have hstep : resolveGo (newSeg nm fn args (.num d) :: (mid ++ w :: rest)) (0 + sumR dp) =
      BP.consOk d (resolveGo (mid ++ w :: rest) (0 + sumR dp + d)) := by
    simp only [resolveGo, newSeg, hwf, Bool.false_eq_true, if_false]
  refine ⟨sr, dp, hsr, hp, ?_, ?_⟩
  · intro hneg
    rw [hforge]
    have hin : resolveGo (mid ++ w :: rest) (0 + sumR dp + d) = .error .value := by
      apply resolveGo_append_error mid (w :: rest) _ dm .value (hmid_el _)
      rw [resolveGo_wait_head w rest _ t tl hw ha, if_pos hneg]
    have hres : b2.resolveWaits = .error .value := by
      unfold BP.resolveWaits
      apply resolveGo_append_error pre _ 0 dp .value hp
      rw [hstep, hin]; rfl
    unfold forgeBP
    simp only [hb2, hsr] at hres ⊢
    simp only [hres]
  · intro hpos hn2 hw2
    rw [hforge]
    have hin : resolveGo (mid ++ w :: rest) (0 + sumR dp + d) =
        .ok (dm ++ (t - (0 + sumR dp + d + sumR dm)) :: drest) := by
      apply resolveGo_append mid (w :: rest) _ dm _ (hmid_el _)
      rw [resolveGo_wait_head w rest _ t tl hw ha]
      have : ¬ (t - (0 + sumR dp + d + sumR dm) < 0) := not_lt.mpr hpos
      simp only [this, if_false, hr]
      rfl
    have hres : b2.resolveWaits = .ok (dp ++ d :: (dm ++ (t - (0 + sumR dp + d + sumR dm)) :: drest)) := by
      unfold BP.resolveWaits
      apply resolveGo_append pre _ 0 dp _ hp
      rw [hstep, hin]; rfl
    have hall : ∀ x ∈ dp ++ d :: (dm ++ (t - (0 + sumR dp + d + sumR dm)) :: drest), 2 ≤ segCount x sr := by
      intro x hx
      simp only [List.mem_append, List.mem_cons] at hx
      rcases hx with hx | rfl | hx | rfl | hx
      · exact hge x (by simp [hx])
      · exact hn2
      · exact hge x (by simp [hx])
      · exact hw2
      · exact hge x (by simp [hx])
    have hbad : badSpecial b2 = false := by
      have h0 : badSpecial b = false := hbs
      unfold badSpecial at h0 ⊢
      rw [hb] at h0
      simp only [hb2, List.any_append, List.any_cons, Bool.or_eq_false_iff] at h0 ⊢
      refine ⟨h0.1, ?_, h0.2⟩
      simp [newSeg, hfn]
    exact ⟨_, (forge_ok_iff b2 _).mpr ⟨sr, _, _, hsr, hres, countsGo_of_all sr _ hall, hbad, rfl⟩⟩

end BB
