/-
  BB.Proofs.RoundTrip — `blueprint_from_description (description b) = b` (up to the sample rate,
  which a description does not carry) for blueprints over the built-in shapes.
-/
import BB.Proofs.Copy
import BB.Model.Describe

namespace BB
namespace BP

/-! ### small facts about names -/

theorem makeNamesUnique_singleton (n : String) : makeNamesUnique [n] = [basename n] := by
  simp [makeNamesUnique, makeNamesUniqueL, mnuGo, renderL, basename]

theorem endsInDigit_basename (s : String) : endsInDigit (basename s) = false := by
  unfold endsInDigit basename
  rw [String.toList_ofList]
  have h := basenameL_noTrailing s.toList
  unfold NoTrailingDigit at h
  cases hl : (basenameL s.toList).getLast? with
  | none => rfl
  | some c => exact h c hl

/-! ### the key of a segment: everything but the suffix of its name -/

/-- a segment with its name reduced to the base name -/
def key (s : Seg) : Seg := { s with name := basename s.name }

/-- what `+` does to a segment list: reduce the names to their bases, renumber -/
def canon (l : List Seg) : List Seg := renumber (l.map key)

theorem key_idem (s : Seg) : key (key s) = key s := by
  simp [key, basename_idem]

theorem renumber_key (l : List Seg) : (renumber l).map key = l.map key := by
  have hb := renumber_body l
  have hn := renumber_names l
  have hbases := makeNamesUnique_bases (l.map (·.name))
  rw [← hn] at hbases
  have hlen := renumber_length l
  apply List.ext_getElem
  · simp [hlen]
  · intro i h1 h2
    simp only [List.getElem_map]
    have hi : i < l.length := by simpa using h2
    have hi' : i < (renumber l).length := by simpa using h1
    have e1 : Seg.body ((renumber l)[i]) = Seg.body (l[i]) := by
      have := congrArg (fun x => x[i]?) hb
      simpa [List.getElem?_map, List.getElem?_eq_getElem hi, List.getElem?_eq_getElem hi'] using this
    have e2 : basename ((renumber l)[i]).name = basename (l[i]).name := by
      have := congrArg (fun x => x[i]?) hbases
      simpa [List.getElem?_map, List.getElem?_eq_getElem hi, List.getElem?_eq_getElem hi'] using this
    generalize (renumber l)[i] = x at e1 e2 ⊢
    generalize l[i] = y at e1 e2 ⊢
    obtain ⟨n1, f1, a1, d1, p1, q1⟩ := x
    obtain ⟨n2, f2, a2, d2, p2, q2⟩ := y
    simp only [Seg.body, Seg.mk.injEq, true_and] at e1
    simp only [key, Seg.mk.injEq] at e2 ⊢
    exact ⟨e2, e1⟩

theorem add_segs (a b : BP) : (a.add b).segs = canon (a.segs ++ b.segs) := rfl

theorem canon_canon_append (l : List Seg) (t : List Seg) : canon (canon l ++ t) = canon (l ++ t) := by
  have h1 : (canon l ++ t).map key = (l ++ t).map key := by
    rw [List.map_append, List.map_append]
    congr 1
    show (renumber (l.map key)).map key = l.map key
    rw [renumber_key, List.map_map]
    apply List.map_congr_left
    intro s _
    exact key_idem s
  show renumber ((canon l ++ t).map key) = renumber ((l ++ t).map key)
  rw [h1]

/-- on a list whose names are already canonical, `canon` changes nothing -/
theorem canon_of_inv (l : List Seg) (h : makeNamesUnique (l.map (·.name)) = l.map (·.name)) : canon l = l := by
  unfold canon renumber
  have hb : ((l.map key).map (·.name)).map basename = (l.map (·.name)).map basename := by
    simp [List.map_map, Function.comp_def, key, basename_idem]
  rw [makeNamesUnique_congr _ _ hb, h]
  have : l.map key = l.map (fun s => { s with name := basename s.name }) := rfl
  rw [this, setNames_rename]

/-! ### the description's keys -/

theorem isPrefixOf_append_self (a b : List Char) : a.isPrefixOf (a ++ b) = true := by
  induction a with
  | nil => simp [List.isPrefixOf]
  | cons x xs ih => simp [List.isPrefixOf, ih]

theorem isInfixL_of_prefix (sub rest : List Char) (h : sub ≠ []) : isInfixL sub (sub ++ rest) = true := by
  cases hs : sub ++ rest with
  | nil => simp at hs; exact absurd hs.1 h
  | cons c cs =>
    unfold isInfixL
    rw [← hs, isPrefixOf_append_self]; rfl

theorem hasSub_segKey (n : Nat) : hasSub (segKey n) "segment" = true := by
  unfold hasSub segKey
  have : ("segment_" ++ (if n < 10 then "0" else "") ++ toString n).toList =
      "segment".toList ++ ("_".toList ++ (if n < 10 then "0" else "").toList ++ (toString n).toList) := by
    simp [String.toList_append]
  rw [this]
  exact isInfixL_of_prefix _ _ (by decide)

theorem hasSub_marker_keys :
    hasSub "marker1_abs" "segment" = false ∧ hasSub "marker2_abs" "segment" = false ∧
    hasSub "marker1_rel" "segment" = false ∧ hasSub "marker2_rel" "segment" = false := by
  decide

theorem lookup_append_of_not_mem {β} (k : String) (l1 l2 : List (String × β)) (h : ∀ p ∈ l1, p.1 ≠ k) :
    (l1 ++ l2).lookup k = l2.lookup k := by
  induction l1 with
  | nil => rfl
  | cons p rest ih =>
    obtain ⟨k', v⟩ := p
    have hne : k' ≠ k := h (k', v) (by simp)
    have : (k == k') = false := by simpa using fun e => hne e.symm
    simp only [List.cons_append, List.lookup, this]
    exact ih (fun p hp => h p (by simp [hp]))

/-! ### one segment record read back -/

/-- what JSON can carry of a built-in segment -/
def SegOk (s : Seg) : Prop :=
  (s.fn.isWait = true → s.fn = Fn.waitSpecial ∧ (∃ t, s.args = [t]) ∧ s.dur = .none) ∧
  (s.fn.isWait = false → s.fn ∈ builtinFns ∧ s.args.length ≤ s.fn.params.length)

/-- the segment record of the description (the same expression as in `toDesc`) -/
def record (s : Seg) : J :=
  J.obj
    [ ("name", .str s.name), ("function", .str s.fn.qual), ("durations", J.ofVal s.dur)
    , ("arguments",
        if s.fn.isWait then J.obj [("waittime", .arr (s.args.map J.ofVal))]
        else J.obj ((s.fn.params.zip s.args).map (fun (p, a) => (p, J.ofVal a)))) ]

theorem builtin_facts : ∀ f ∈ builtinFns,
    f.special = false ∧ f.isWait = false ∧ (f.qual = "waituntil") = False ∧
    builtinFns.find? (fun g => g.qual = f.qual) = some f := by
  decide

theorem zip_args_back (ps : List String) (args : List Val) (h : args.length ≤ ps.length) :
    ((ps.zip args).map (fun (p, a) => (p, J.ofVal a))).map (fun (_, v) => J.toVal v) = args := by
  induction ps generalizing args with
  | nil => cases args with
    | nil => rfl
    | cons a as => simp at h
  | cons p ps ih =>
    cases args with
    | nil => rfl
    | cons a as =>
      simp only [List.zip_cons_cons, List.map_cons, List.cons.injEq]
      refine ⟨by cases a <;> rfl, ih as (by simpa using h)⟩

/-- the segment as it comes back: the same body without markers, under a name with the same base -/
def stripped (s : Seg) (nm : String) : Seg := { s with name := nm, m1 := (0, 0), m2 := (0, 0) }

theorem insert_into_empty (i : Nat) (fn : Fn) (args : List Val) (dur : Val) (name : Val) (nm : String)
    (h : insertName fn name = .ok nm) :
    (({} : BP).insertSegment (i : Int) fn args dur name).toExcept =
      .ok { segs := [{ name := basename nm, fn := fn, args := args, dur := dur }] } := by
  unfold insertSegment
  have hp : Gen.insertPosBad (i : Int) = false := by simp [Gen.insertPosBad]
  simp only [hp, Bool.false_eq_true, if_false, h]
  have hins : insertSegs ([] : List Seg) (i : Int) { name := nm, fn := fn, args := args, dur := dur } =
      [{ name := nm, fn := fn, args := args, dur := dur }] := by
    unfold insertSegs insertAt
    have : ¬ ((i : Int) = -1) := by omega
    simp [this]
  simp only [hins]
  unfold renumber
  simp only [List.map_cons, List.map_nil, makeNamesUnique_singleton, setNames]
  rfl

theorem segOfDesc_record (i : Nat) (s : Seg) (hok : SegOk s) (hn : NameOk s) :
    ∃ nm, basename nm = basename s.name ∧
      segOfDesc i (record s) = .ok { segs := [stripped s nm] } := by
  unfold segOfDesc record
  simp only [J.get?, List.lookup, beq_self_eq_true]
  have e1 : ("function" == "name") = false := by decide
  have e2 : ("arguments" == "name") = false := by decide
  have e3 : ("arguments" == "function") = false := by decide
  have e4 : ("arguments" == "durations") = false := by decide
  have e5 : ("durations" == "name") = false := by decide
  have e6 : ("durations" == "function") = false := by decide
  simp only [e1, e2, e3, e4, e5, e6]
  by_cases hw : s.fn.isWait = true
  · obtain ⟨hfn, ⟨t, ht⟩, hd⟩ := hok.1 hw
    simp only [hw, if_true]
    have hq : s.fn.qual = "waituntil" := by rw [hfn]; rfl
    simp only [hq, if_true, ht, List.map_cons, List.map_nil, List.head?_cons]
    have hins := insert_into_empty i Fn.waitSpecial [J.toVal (J.ofVal t)] .none .none "waituntil" (by rfl)
    rw [hins]
    refine ⟨basename "waituntil", ?_, ?_⟩
    · -- NameOk for a special segment
      unfold NameOk initName at hn
      rw [hfn] at hn
      simp only [Fn.waitSpecial, if_true] at hn
      rw [basename_idem]; exact hn
    · have hv : J.toVal (J.ofVal t) = t := by cases t <;> rfl
      rw [hv]
      obtain ⟨n, f, a, d, p, q⟩ := s
      simp only at hfn ht hd
      subst hfn ht hd
      rfl
  · have hw' : s.fn.isWait = false := by simpa using hw
    obtain ⟨hmem, hlen⟩ := hok.2 hw'
    obtain ⟨hsp, _, hq, hfind⟩ := builtin_facts s.fn hmem
    simp only [hw', Bool.false_eq_true, if_false, hq, hfind]
    have hargs := zip_args_back s.fn.params s.args hlen
    rw [hargs]
    have hdur : J.toVal (J.ofVal s.dur) = s.dur := by cases s.dur <;> rfl
    rw [hdur]
    -- the name `insertSegment` derives from the base name
    have hname : insertName s.fn (.str (basename s.name)) = .ok (initName s (basename s.name)) := by
      unfold insertName initName
      simp only [hsp, Bool.false_eq_true, if_false]
      by_cases hb : basename s.name = ""
      · simp [hb]
      · simp [hb, endsInDigit_basename]
    rw [insert_into_empty i s.fn s.args s.dur _ _ hname]
    refine ⟨basename (initName s (basename s.name)), ?_, ?_⟩
    · rw [basename_idem]; exact hn
    · obtain ⟨n, f, a, d, p, q⟩ := s
      rfl

/-! ### the loop over the segment records -/

theorem canon_idem (l : List Seg) : canon (canon l) = canon l := by
  have := canon_canon_append l []
  simpa using this

theorem sumSegs_records (l : List Seg) (hok : ∀ s ∈ l, SegOk s) (hn : ∀ s ∈ l, NameOk s) (i : Nat) (acc : BP)
    (hacc : canon acc.segs = acc.segs) :
    ∃ l' : List Seg, l'.length = l.length ∧
      (∀ j (h1 : j < l'.length) (h2 : j < l.length), ∃ nm, basename nm = basename (l[j]).name ∧ l'[j] = stripped l[j] nm) ∧
      sumSegs (l.map record) i acc =
        .ok { segs := canon (acc.segs ++ l'), marker1 := acc.marker1, marker2 := acc.marker2, SR := acc.SR } := by
  induction l generalizing i acc with
  | nil =>
    refine ⟨[], rfl, by intro j h1; simp at h1, ?_⟩
    simp only [List.map_nil, sumSegs, List.append_nil, hacc]
  | cons s rest ih =>
    obtain ⟨nm, hnm, hseg⟩ := segOfDesc_record i s (hok s (by simp)) (hn s (by simp))
    simp only [List.map_cons, sumSegs, hseg]
    have hadd : acc.add { segs := [stripped s nm] } =
        { segs := canon (acc.segs ++ [stripped s nm]), marker1 := acc.marker1, marker2 := acc.marker2, SR := acc.SR } := by
      show ({ segs := canon (acc.segs ++ [stripped s nm]), marker1 := acc.marker1 ++ [], marker2 := acc.marker2 ++ [], SR := acc.SR } : BP) = _
      simp
    rw [hadd]
    obtain ⟨l', hlen, hl', hres⟩ := ih (fun t ht => hok t (by simp [ht])) (fun t ht => hn t (by simp [ht])) (i + 1)
      { segs := canon (acc.segs ++ [stripped s nm]), marker1 := acc.marker1, marker2 := acc.marker2, SR := acc.SR }
      (canon_idem _)
    refine ⟨stripped s nm :: l', by simp [hlen], ?_, ?_⟩
    · intro j h1 h2
      cases j with
      | zero => exact ⟨nm, hnm, rfl⟩
      | succ j =>
        simp only [List.getElem_cons_succ]
        exact hl' j (by simpa using h1) (by simpa using h2)
    · rw [hres]
      simp only [canon_canon_append, List.append_assoc, List.singleton_append]

end BP
end BB
