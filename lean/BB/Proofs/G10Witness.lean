/-
  BB.Proofs.G10Witness — non-vacuity of the theorems of property C16 about read-back operands
  (`C16.readback_inv`, `C16.builtRB_inv`, `C16.forge_add_readback`): a concrete sequence that went
  through the JSON round trip of property C19.  String conversion (`toString`, `String.toInt?`) is
  not kernel-reducible, so `sequence_from_description` cannot be run by `decide`; the witness comes
  from the round-trip theorem `C19.roundtrip_seq_observables` instead.  (A file of its own because
  it needs both C16 and C19, which do not import each other.)
-/
import BB.Properties.C16
import BB.Properties.C19
import BB.Proofs.G10Repeat

namespace BB.G10
open BB BB.Sequence

/-- **a concrete read-back sequence under `+`**: the JSON round trip of the example sequence of C19
    (two positions, two channels, flags, a channel delay, a filter compensation) returns a sequence
    `s'`; it satisfies `C16.SeqInv`, belongs to the extended interface `C16.BuiltRB`, is over the
    same channels as itself, forges, and `s' + s'` returns — every hypothesis of
    `C16.forge_add_readback` with `a = b = s'` -/
theorem readback_seqInv_witness :
    ∃ d s', C19.exSeq.toDesc = .ok d ∧ Sequence.ofDesc d = .ok s' ∧ C16.SeqInv s' ∧ C16.BuiltRB s' ∧
      C16.SameShape s' s' ∧ (s'.forge true true false).toOption.isSome = true ∧
      (s'.add s').toOption.isSome = true := by
  cases hd : C19.exSeq.toDesc with
  | error e =>
    have : C19.exSeq.toDesc.toOption.isSome = true := by decide +kernel
    rw [hd] at this
    cases this
  | ok d =>
    obtain ⟨s', hs', _, _, hforge, _⟩ := C19.roundtrip_seq_observables C19.exSeq (.num 10) C19.exSeq_ok d hd
    have hfo : (s'.forge true true false).toOption.isSome = true := by
      rw [hforge]; decide +kernel
    have hinv := C16.readback_inv d s' hs'
    -- the read-back sequence forges, so it is consistent
    have hcons : s'.checkConsistency = .ok true := by
      cases hf : s'.forge true true false with
      | error e => rw [hf] at hfo; cases hfo
      | ok out => exact ((G5.forge_ok_iff_steps s' true true false out).mp hf).1
    have hsh : C16.SameShape s' s' := by
      intro x hx y hy
      obtain ⟨_, _, hall⟩ := consistent_uniform s' hcons x hx
      exact hall y hy
    refine ⟨d, s', rfl, hs', hinv, .readBack d s' hs', hsh, hfo, ?_⟩
    have hadd : s'.add s' = .ok (addCore s' s') :=
      (C16.add_ok_iff s' s' _).mpr ⟨hcons, hcons, Dict.eqBy_of_get?_eq hinv.2 hinv.2 (fun _ => rfl), rfl⟩
    rw [hadd]; rfl

end BB.G10
