/-
  BB.Proofs.Copy — `BluePrint.copy()` is the identity on every blueprint reachable through the
  public API.  `copy` sends every name through `_basename`, `__init__` (special segments take
  their protected name, empty names the function's `__name__`) and `_make_names_unique`; that this
  gives back the very same names needs a second invariant about how names relate to functions.
-/
import BB.Proofs.Blueprint

namespace BB
namespace BP

/-- the base of a segment's name is what `__init__` would derive again from its base -/
def NameOk (s : Seg) : Prop := basename (initName s (basename s.name)) = basename s.name

/-- second invariant of reachable blueprints -/
def Inv2 (b : BP) : Prop := ∀ s ∈ b.segs, NameOk s

theorem basename_idem (s : String) : basename (basename s) = basename s := by
  unfold basename
  rw [String.toList_ofList, basenameL_idem]

theorem nameOk_congr {s t : Seg} (hf : t.fn = s.fn) (hn : basename t.name = basename s.name)
    (h : NameOk s) : NameOk t := by
  unfold NameOk initName at *
  rw [hf, hn]
  exact h

theorem getLast?_reverse_dropWhile (l : List Char) :
    ∀ c, l.getLast? = some c → c.isDigit = false → (l.reverse.dropWhile Char.isDigit).reverse = l := by
  intro c hc hd
  have : l.reverse.head? = some c := by simpa [List.head?_reverse] using hc
  cases hr : l.reverse with
  | nil => simp [hr] at this
  | cons x xs =>
    rw [hr] at this
    simp only [List.head?_cons, Option.some.injEq] at this
    subst this
    rw [List.dropWhile_cons_of_neg (by simp [hd])]
    rw [← hr, List.reverse_reverse]

/-- a non-empty name that does not end in a digit is its own base -/
theorem basename_of_not_endsInDigit (s : String) (h : endsInDigit s = false) : basename s = s := by
  unfold basename basenameL
  unfold endsInDigit at h
  cases hl : s.toList.getLast? with
  | none =>
    have : s.toList = [] := by simpa using hl
    rw [this]; simp
    exact (String.toList_eq_nil_iff.mp this).symm ▸ rfl
  | some c =>
    rw [hl] at h
    rw [getLast?_reverse_dropWhile _ c hl h]
    exact String.ofList_toList

theorem renumber_mem (segs : List Seg) (t : Seg) (ht : t ∈ renumber segs) :
    ∃ s ∈ segs, t.fn = s.fn ∧ basename t.name = basename s.name := by
  obtain ⟨i, hi, rfl⟩ := List.getElem_of_mem ht
  have hl := renumber_length segs
  have hi' : i < segs.length := hl ▸ hi
  refine ⟨segs[i], List.getElem_mem hi', ?_, ?_⟩
  · have hb := renumber_body segs
    have := congrArg (fun l => l[i]?) hb
    simp only [List.getElem?_map, List.getElem?_eq_getElem hi, List.getElem?_eq_getElem hi',
      Option.map_some, Option.some.injEq] at this
    have := congrArg Seg.fn this
    simpa [Seg.body] using this
  · have hn := renumber_names segs
    have hb := makeNamesUnique_bases (segs.map (·.name))
    rw [← hn] at hb
    have := congrArg (fun l => l[i]?) hb
    simpa [List.getElem?_map, List.getElem?_eq_getElem hi, List.getElem?_eq_getElem hi'] using this

theorem inv2_renumber (b : BP) (segs : List Seg) (h : ∀ s ∈ segs, NameOk s) :
    Inv2 { b with segs := renumber segs } := by
  intro t ht
  obtain ⟨s, hs, hf, hn⟩ := renumber_mem segs t ht
  exact nameOk_congr hf hn (h s hs)

theorem inv2_empty : Inv2 ({} : BP) := by intro s hs; simp at hs

theorem nameOk_insert (fn : Fn) (args : List Val) (dur name : Val) (nm : String)
    (h : insertName fn name = .ok nm) :
    NameOk { name := nm, fn := fn, args := args, dur := dur } := by
  unfold insertName at h
  unfold NameOk initName
  simp only
  split at h
  · rename_i hsp
    cases h
    simp [hsp, basename_idem]
  · rename_i hsp
    simp only [hsp, Bool.false_eq_true, if_false]
    split at h
    · cases h; split <;> simp [basename_idem]
    · split at h
      · cases h; split <;> simp [basename_idem]
      · split at h
        · cases h
        · rename_i s hne hd
          cases h
          have hb := basename_of_not_endsInDigit nm (by simpa using hd)
          rw [hb]
          simp [hne, hb]
    · cases h

theorem mem_insertSegs (segs : List Seg) (pos : Int) (x s : Seg) (h : s ∈ insertSegs segs pos x) :
    s = x ∨ s ∈ segs := by
  unfold insertSegs insertAt at h
  split at h
  · simp only [List.mem_append, List.mem_singleton] at h
    exact h.symm
  · simp only [List.mem_append, List.mem_cons] at h
    rcases h with h | h | h
    · exact Or.inr (List.mem_of_mem_take h)
    · exact Or.inl h
    · exact Or.inr (List.mem_of_mem_drop h)

theorem inv2_insertSegment {b : BP} (h : Inv2 b) (pos : Int) (fn : Fn) (args : List Val) (dur name : Val) :
    Inv2 (b.insertSegment pos fn args dur name).st := by
  unfold insertSegment
  split
  · exact h
  · split
    · exact h
    · rename_i nm hnm
      apply inv2_renumber
      intro s hs
      rcases mem_insertSegs _ _ _ _ hs with rfl | hs
      · exact nameOk_insert fn args dur name nm hnm
      · exact h s hs

theorem inv2_removeSegment {b : BP} (h : Inv2 b) (name : String) : Inv2 (b.removeSegment name).st := by
  unfold removeSegment
  split
  · exact h
  · apply inv2_renumber
    intro s hs
    exact h s (List.mem_of_mem_eraseIdx hs)

theorem mem_modify {α} (l : List α) (i : Nat) (f : α → α) (x : α) (h : x ∈ l.modify i f) :
    x ∈ l ∨ ∃ y ∈ l, x = f y := by
  obtain ⟨j, hj, rfl⟩ := List.getElem_of_mem h
  rw [List.getElem_modify]
  have hj' : j < l.length := by simpa using hj
  split
  · exact Or.inr ⟨l[j], List.getElem_mem hj', rfl⟩
  · exact Or.inl (List.getElem_mem hj')

theorem inv2_modifySeg {b : BP} (h : Inv2 b) (i : Nat) (f : Seg → Seg)
    (hf : ∀ s, (f s).name = s.name ∧ (f s).fn = s.fn) : Inv2 (b.modifySeg i f) := by
  intro s hs
  rcases mem_modify _ _ _ _ hs with hs | ⟨y, hy, rfl⟩
  · exact h s hs
  · exact nameOk_congr (hf y).2 (by rw [(hf y).1]) (h y hy)

theorem inv2_changeArgOne {b : BP} (h : Inv2 b) (nm : String) (arg value : Val) :
    Inv2 (b.changeArgOne nm arg value).st := by
  unfold changeArgOne
  split
  · exact h
  · split
    · exact h
    · split
      · exact h
      · split
        · exact h
        · split
          · exact inv2_modifySeg h _ _ (fun s => ⟨rfl, rfl⟩)
          · exact h

theorem inv2_changeArgLoop {b : BP} (h : Inv2 b) (l : List String) (arg value : Val) :
    Inv2 (b.changeArgLoop l arg value).st := by
  induction l generalizing b with
  | nil => exact h
  | cons nm rest ih =>
    unfold changeArgLoop
    have h1 := inv2_changeArgOne h nm arg value
    generalize b.changeArgOne nm arg value = r at h1
    obtain ⟨st, err⟩ := r
    cases err with
    | none => exact ih h1
    | some e => exact h1

theorem inv2_changeArg {b : BP} (h : Inv2 b) (name : String) (arg value : Val) (all : Bool) :
    Inv2 (b.changeArg name arg value all).st := by
  unfold changeArg
  split
  · exact h
  · exact inv2_changeArgLoop h _ _ _

theorem setDur_fn (tgts : List String) (d : Rat) (s : Seg) : (setDur tgts d s).fn = s.fn := by
  unfold setDur; split <;> rfl

theorem setMark_fn (mid : Int) (m : Mark) (s : Seg) : (setMark mid m s).fn = s.fn := by
  unfold setMark; split <;> rfl

theorem inv2_changeDuration {b : BP} (h : Inv2 b) (name : String) (dur : Val) (all : Bool) :
    Inv2 (b.changeDuration name dur all).st := by
  unfold changeDuration
  split
  · split
    · exact h
    · split
      · exact h
      · split
        · exact h
        · intro s hs
          simp only [List.mem_map] at hs
          obtain ⟨y, hy, rfl⟩ := hs
          exact nameOk_congr (setDur_fn _ _ _) (by rw [setDur_name]) (h y hy)
  · exact h

theorem inv2_setSegmentMarker {b : BP} (h : Inv2 b) (name : String) (specs : Mark) (mid : Int) :
    Inv2 (b.setSegmentMarker name specs mid).st := by
  unfold setSegmentMarker
  split
  · exact h
  · split
    · exact h
    · exact inv2_modifySeg h _ _ (fun s => ⟨setMark_name _ _ _, setMark_fn _ _ _⟩)

theorem inv2_removeSegmentMarker {b : BP} (h : Inv2 b) (name : String) (mid : Int) :
    Inv2 (b.removeSegmentMarker name mid).st := by
  unfold removeSegmentMarker
  split
  · exact h
  · split
    · exact h
    · exact inv2_modifySeg h _ _ (fun s => ⟨setMark_name _ _ _, setMark_fn _ _ _⟩)

theorem inv2_copy {b : BP} (h : Inv2 b) : Inv2 b.copy := by
  unfold copy
  apply inv2_renumber
  intro s hs
  simp only [List.mem_map] at hs
  obtain ⟨y, hy, rfl⟩ := hs
  have hy' := h y hy
  unfold NameOk at *
  unfold initName at *
  simp only at *
  rw [hy']
  exact hy'

theorem inv2_add {a b : BP} (ha : Inv2 a) (hb : Inv2 b) : Inv2 (a.add b) := by
  unfold add
  apply inv2_renumber (b := { segs := [], marker1 := a.marker1 ++ b.marker1, marker2 := a.marker2 ++ b.marker2, SR := a.SR })
  intro s hs
  simp only [List.mem_map, List.mem_append] at hs
  obtain ⟨y, hy, rfl⟩ := hs
  have hy' : NameOk y := hy.elim (ha y) (hb y)
  unfold NameOk initName at *
  simp only [basename_idem] at *
  exact hy'

theorem inv2_step {b : BP} (h : Inv2 b) (o : Op) : Inv2 (b.step o).st := by
  cases o with
  | insert => exact inv2_insertSegment h _ _ _ _ _
  | remove => exact inv2_removeSegment h _
  | changeArg => exact inv2_changeArg h _ _ _ _
  | changeDur => exact inv2_changeDuration h _ _ _
  | setSegMarker => exact inv2_setSegmentMarker h _ _ _
  | removeSegMarker => exact inv2_removeSegmentMarker h _ _
  | setMarker1 => exact h
  | setMarker2 => exact h
  | setSR => exact h

theorem inv2_reachable (h : Hist) : Inv2 h.eval := by
  induction h with
  | empty => exact inv2_empty
  | op h o ih => exact inv2_step ih o
  | copy h ih => exact inv2_copy ih
  | add h₁ h₂ ih₁ ih₂ => exact inv2_add ih₁ ih₂

/-- `setNames` with the list's own names gives the list back, whatever the names were before -/
theorem setNames_rename (segs : List Seg) (f : Seg → String) :
    setNames (segs.map (fun s => { s with name := f s })) (segs.map (·.name)) = segs := by
  induction segs with
  | nil => rfl
  | cons s ss ih => simp [setNames, ih]

/-- **copy is the identity** on blueprints satisfying both invariants -/
theorem copy_eq_self {b : BP} (h1 : Inv b) (h2 : Inv2 b) : b.copy = b := by
  unfold copy renumber
  have hb : ((b.segs.map (fun s => { s with name := initName s (basename s.name) })).map (·.name)).map basename
      = b.names.map basename := by
    unfold names
    simp only [List.map_map]
    apply List.map_congr_left
    intro s hs
    exact h2 s hs
  rw [makeNamesUnique_congr _ _ hb, h1]
  unfold names
  rw [setNames_rename]

/-- copy is the identity on every blueprint obtained through the public API -/
theorem copy_reachable (h : Hist) : h.eval.copy = h.eval :=
  copy_eq_self (inv_reachable h) (inv2_reachable h)

end BP
end BB
