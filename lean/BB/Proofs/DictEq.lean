/-
  BB.Proofs.DictEq — Python `dict.__eq__` on the model's insertion-ordered dictionaries:
  reflexive, symmetric and exactly "same keys, related values" on well-formed dictionaries
  (no key twice — which is what `upsert` maintains).
-/
import Batteries.Data.List.Perm
import Mathlib.Tactic.Tauto
import BB.Proofs.Basic

namespace BB
namespace Dict
variable {κ α : Type} [DecidableEq κ]

/-- no key occurs twice -/
def WF (d : Dict κ α) : Prop := (keys d).Nodup

theorem wf_nil : WF ([] : Dict κ α) := List.nodup_nil

theorem mem_keys_upsert (d : Dict κ α) (k k2 : κ) (v : α) :
    k2 ∈ keys (upsert d k v) ↔ k2 = k ∨ k2 ∈ keys d := by
  induction d with
  | nil => simp [upsert, keys]
  | cons p rest ih =>
    obtain ⟨k', v'⟩ := p
    unfold upsert
    split
    · rename_i h; subst h; simp [keys]
    · simp only [keys, List.map_cons, List.mem_cons] at *
      rw [ih]; tauto

theorem wf_upsert {d : Dict κ α} (h : WF d) (k : κ) (v : α) : WF (upsert d k v) := by
  unfold WF at *
  by_cases hk : k ∈ keys d
  · rw [keys_upsert_of_mem d k v hk]; exact h
  · rw [keys_upsert_of_not_mem d k v hk]
    exact List.nodup_append.mpr ⟨h, (by simp), by
      intro a ha b hb
      simp only [List.mem_singleton] at hb
      subst hb
      intro e; subst e; exact hk ha⟩

theorem get?_eq_some_of_mem {d : Dict κ α} (h : WF d) (k : κ) (v : α) (hm : (k, v) ∈ d) :
    get? d k = some v := by
  induction d with
  | nil => simp at hm
  | cons p rest ih =>
    obtain ⟨k', v'⟩ := p
    unfold WF keys at h
    simp only [List.map_cons, List.nodup_cons] at h
    simp only [List.mem_cons, Prod.mk.injEq] at hm
    unfold get?
    rcases hm with ⟨rfl, rfl⟩ | hm
    · simp [List.find?]
    · have hne : k' ≠ k := by
        intro e; subst e
        exact h.1 (List.mem_map.mpr ⟨(k', v), hm, rfl⟩)
      simp only [List.find?, hne, decide_false]
      exact ih h.2 hm

theorem mem_of_get?_eq_some {d : Dict κ α} (k : κ) (v : α) (h : get? d k = some v) : (k, v) ∈ d := by
  unfold get? at h
  simp only [Option.map_eq_some_iff] at h
  obtain ⟨p, hp, rfl⟩ := h
  have := List.find?_some hp
  simp only [decide_eq_true_eq] at this
  subst this
  exact List.mem_of_find?_eq_some hp

theorem get?_isSome_iff (d : Dict κ α) (k : κ) : (get? d k).isSome ↔ k ∈ keys d := by
  constructor
  · intro h
    obtain ⟨v, hv⟩ := Option.isSome_iff_exists.mp h
    exact List.mem_map.mpr ⟨(k, v), mem_of_get?_eq_some k v hv, rfl⟩
  · intro h
    obtain ⟨p, hp, rfl⟩ := List.mem_map.mp h
    unfold get?
    simp only [Option.isSome_map]
    rw [List.find?_isSome]
    exact ⟨p, hp, by simp⟩

/-- the meaning of `eqBy` on well-formed dictionaries -/
theorem eqBy_iff (f : α → α → Bool) {a b : Dict κ α} (ha : WF a) :
    eqBy f a b = true ↔
      a.length = b.length ∧ ∀ k v, get? a k = some v → ∃ w, get? b k = some w ∧ f v w = true := by
  unfold eqBy
  simp only [Bool.and_eq_true, beq_iff_eq, List.all_eq_true]
  constructor
  · rintro ⟨hl, hall⟩
    refine ⟨hl, fun k v hk => ?_⟩
    have := hall (k, v) (mem_of_get?_eq_some k v hk)
    simp only at this
    split at this
    · rename_i w hw; exact ⟨w, hw, this⟩
    · simp at this
  · rintro ⟨hl, hall⟩
    refine ⟨hl, ?_⟩
    rintro ⟨k, v⟩ hm
    obtain ⟨w, hw, hf⟩ := hall k v (get?_eq_some_of_mem ha k v hm)
    simp [hw, hf]

theorem eqBy_refl (f : α → α → Bool) (hf : ∀ x, f x x = true) {a : Dict κ α} (ha : WF a) :
    eqBy f a a = true :=
  (eqBy_iff f ha).mpr ⟨rfl, fun _ v hk => ⟨v, hk, hf v⟩⟩

/-- equal dictionaries have the same key set -/
theorem eqBy_keys (f : α → α → Bool) {a b : Dict κ α} (ha : WF a) (hb : WF b)
    (h : eqBy f a b = true) : ∀ k, k ∈ keys b ↔ k ∈ keys a := by
  obtain ⟨hl, hall⟩ := (eqBy_iff f ha).mp h
  have hsub : keys a ⊆ keys b := by
    intro k hk
    obtain ⟨v, hv⟩ := Option.isSome_iff_exists.mp ((get?_isSome_iff a k).mpr hk)
    obtain ⟨w, hw, _⟩ := hall k v hv
    exact (get?_isSome_iff b k).mp (by simp [hw])
  have hperm : (keys a).Perm (keys b) :=
    (List.subperm_of_subset ha hsub).perm_of_length_le (by simp [keys, hl])
  intro k
  exact (hperm.mem_iff).symm

theorem eqBy_symm (f : α → α → Bool) (hf : ∀ x y, f x y = true → f y x = true) {a b : Dict κ α}
    (ha : WF a) (hb : WF b) (h : eqBy f a b = true) : eqBy f b a = true := by
  obtain ⟨hl, hall⟩ := (eqBy_iff f ha).mp h
  refine (eqBy_iff f hb).mpr ⟨hl.symm, fun k w hk => ?_⟩
  have hkb : k ∈ keys b := (get?_isSome_iff b k).mp (by simp [hk])
  have hka : k ∈ keys a := (eqBy_keys f ha hb h k).mp hkb
  obtain ⟨v, hv⟩ := Option.isSome_iff_exists.mp ((get?_isSome_iff a k).mpr hka)
  obtain ⟨w', hw', hfw⟩ := hall k v hv
  rw [hk] at hw'
  cases hw'
  exact ⟨v, hv, hf v w hfw⟩

end Dict
end BB
