/-
  BB.Proofs.G9Capstone — helpers for the capstone theorems of C14 / C15 / C11 that tie the AWG5014
  and SEQX packages directly to `Sequence.forge`:

  * looking a channel up by id in a forged element = taking it by index (no channel id twice),
  * the channel ids of a forged element position are those of the stored element, in order,
  * the output methods depend on the sequence only through its store, sequencing table, name,
    `_prepareForOutputting` and the amplitude / offset settings (congruence lemmas), so that
    two settings of the filter compensation that agree on `_prepareForOutputting` agree on the
    packages.
-/
import BB.Proofs.G4Frame
import BB.Proofs.G4Prep
import BB.Proofs.G4Built
import BB.Proofs.G3Awg

namespace BB
namespace G9
open BB BB.Sequence Element

/-! ### lookup by channel id vs. by index -/

/-- in a channel dictionary without repeated ids, looking up the id of the `k`-th entry gives the `k`-th entry -/
theorem lookup_of_getElem (d : Dict Chan ChOutF) (hwf : Dict.WF d) (k : Nat) (hk : k < d.length) :
    lookupCh d (d[k]).1 = .ok (d[k]).2 := by
  have hm : ((d[k]).1, (d[k]).2) ∈ d := List.getElem_mem hk
  simp [lookupCh, Dict.get?_eq_some_of_mem hwf _ _ hm]

/-- `lookupCh` succeeds exactly with a member of the dictionary -/
theorem lookup_mem (d : Dict Chan ChOutF) (ch : Chan) (c : ChOutF) (h : lookupCh d ch = .ok c) : (ch, c) ∈ d := by
  unfold lookupCh at h
  split at h
  · rename_i c' hg
    cases h
    exact Dict.mem_of_get?_eq_some _ _ hg
  · cases h

/-- the waveform an output method reads from a forged channel carries that channel's filter annotation -/
theorem chWave_filt (c : ChOutF) (w : Wave) (h : chWave c = .ok w) : w.filt = c.filt := by
  unfold chWave at h
  split at h
  · cases h; rfl
  · split at h
    · cases h; rfl
    · cases h

/-- the channel ids of what `forge` (delays on) delivers at an element position are the ids of
    the stored element, in the stored order -/
theorem forge_element_keys (s : Sequence) (fl t : Bool) (out : List (Nat × ForgedPos))
    (h : s.forge true fl t = .ok out) (i : Nat) (hi : i < out.length) (e : Element)
    (he : Dict.get? s.data ((i + 1 : Nat) : Int) = some (.el e)) :
    ∃ c sq, out[i] = (i + 1, { sequencing := sq, isSub := false, content := [(1, c, none)] }) ∧
      Dict.keys c = Dict.keys e.chans := by
  obtain ⟨en, hen, hpos⟩ := (Sequence.forge_pos s true fl t out h).2 i hi
  rw [he] at hen
  cases hen
  obtain ⟨e', arr, c, sq, h1, h2, h3, _, h5⟩ := Sequence.forgePos_element s true fl t (i + 1) e _ hpos
  have hde : s.delayElement e = .ok e' := by simpa [Sequence.delayedEl] using h1
  obtain ⟨hl3, hw⟩ := Sequence.g4_withFilters_getElem s fl arr c h3
  obtain ⟨hl1, hd⟩ := Sequence.delayedEl_frame s e e' hde
  obtain ⟨hl2, hg⟩ := g4_getArrays_getElem e' t arr h2
  refine ⟨c, sq, h5, ?_⟩
  apply List.ext_getElem
  · simp only [Dict.keys, List.length_map]; omega
  · intro k k1 k2
    simp only [Dict.keys, List.length_map] at k1 k2
    simp only [Dict.keys, List.getElem_map]
    rw [(hw k (by omega) k1).1, (hg k (by omega) (by omega)).1, (hd k k2 (by omega)).1]

/-! ### AWG settings keys -/

theorem keyOf_offset_ne_filter (ch ch' : Chan) : keyOf ch' "offset" ≠ keyOf ch "filtercompensation" := by
  intro h
  have := congrArg (fun s => s.toList.reverse.head?) h
  simp [keyOf] at this

/-- `specNum` does not see a setting stored under another key -/
theorem specNum_setSpec_other (s : Sequence) (k k' : String) (v : Spec) (hk : k' ≠ k) :
    SeqCore.specNum (s.setSpec k v) k' = s.specNum k' := by
  simp only [SeqCore.specNum, SeqCore.setSpec]
  rw [Dict.get?_upsert_other _ _ _ _ hk]

/-- `key in awgspecs` is `awgspecs.get(key) is not None` -/
theorem has_eq_isSome {κ α : Type} [DecidableEq κ] (d : Dict κ α) (k : κ) : Dict.has d k = (Dict.get? d k).isSome := by
  unfold Dict.has Dict.get?
  induction d with
  | nil => rfl
  | cons x xs ih =>
    simp only [List.any_cons, List.find?_cons]
    by_cases hk : x.1 = k
    · simp [hk]
    · simp only [hk, decide_false, Bool.false_or]
      exact ih

theorem has_setSpec_other (s : Sequence) (k k' : String) (v : Spec) (hk : k' ≠ k) :
    Dict.has (s.setSpec k v).awgspecs k' = Dict.has s.awgspecs k' := by
  simp only [has_eq_isSome, SeqCore.setSpec]
  rw [Dict.get?_upsert_other _ _ _ _ hk]

/-! ### what the output methods read from the sequence -/

/-- **`outputForAWGFile` depends on the sequence only through** its store, its sequencing table,
    `_prepareForOutputting`, whether a sample rate and the channel offsets are set, and the numeric
    amplitude and offset of every channel -/
theorem awg_congr (s s' : Sequence) (hd : s.data = s'.data) (hq : s.sequencing = s'.sequencing)
    (hprep : s.prepareForOutputting = s'.prepareForOutputting)
    (hsr : Dict.has s.awgspecs "SR" = Dict.has s'.awgspecs "SR")
    (hoff : ∀ ch, Dict.has s.awgspecs (keyOf ch "offset") = Dict.has s'.awgspecs (keyOf ch "offset"))
    (hamp : ∀ ch, s.specNum (keyOf ch "amplitude") = s'.specNum (keyOf ch "amplitude"))
    (hoffn : ∀ ch, s.specNum (keyOf ch "offset") = s'.specNum (keyOf ch "offset")) :
    s.outputForAWGFile = s'.outputForAWGFile := by
  have hcw : awgCheckWave s = awgCheckWave s' := by
    funext pos el ch
    unfold awgCheckWave
    rw [hamp ch, hoffn ch]
  have hrow : awgRow s = awgRow s' := by
    funext chans N p
    unfold awgRow
    rw [hq]
  have hch : s.channels = s'.channels := by
    unfold Sequence.channels Sequence.checkConsistency
    rw [hsr, hd]
  have hany : ∀ chans : List Chan, chans.any (fun ch => !(Dict.has s.awgspecs (keyOf ch "offset"))) =
      chans.any (fun ch => !(Dict.has s'.awgspecs (keyOf ch "offset"))) := by
    intro chans
    congr 1
    funext ch
    rw [hoff]
  unfold outputForAWGFile
  simp only [hprep, hd, hany, hcw, hrow, hch]

/-- **`outputForSEQXFile` depends on the sequence only through** its store, its sequencing table, its
    name, `_prepareForOutputting` and the numeric amplitude of every channel -/
theorem seqx_congr (s s' : Sequence) (hd : s.data = s'.data) (hq : s.sequencing = s'.sequencing)
    (hname : s.name = s'.name) (hprep : s.prepareForOutputting = s'.prepareForOutputting)
    (hamp : ∀ ch, s.specNum (keyOf ch "amplitude") = s'.specNum (keyOf ch "amplitude")) :
    s.outputForSEQXFile = s'.outputForSEQXFile := by
  have hrow : seqxRow s = seqxRow s' := by
    funext chans N p
    unfold seqxRow
    rw [hq]
  have hpk : seqxPackage s = seqxPackage s' := by
    funext n amps rows
    unfold seqxPackage
    rw [hname]
  unfold outputForSEQXFile
  simp only [hprep, hd, hamp, hrow, hpk]

/-- ... and so does `outputForSEQXFileWithFlags` -/
theorem seqxFlags_congr (s s' : Sequence) (hd : s.data = s'.data) (hq : s.sequencing = s'.sequencing)
    (hname : s.name = s'.name) (hprep : s.prepareForOutputting = s'.prepareForOutputting)
    (hamp : ∀ ch, s.specNum (keyOf ch "amplitude") = s'.specNum (keyOf ch "amplitude")) :
    s.outputForSEQXFileWithFlags = s'.outputForSEQXFileWithFlags := by
  have h := seqx_congr s s' hd hq hname hprep hamp
  unfold outputForSEQXFileWithFlags
  simp only [hprep, hd, h]

/-! ### two values of the filter-compensation setting -/

/-- if two values of channel `ch`'s filter-compensation setting give the same
    `_prepareForOutputting`, they give the same result of all three output methods -/
theorem outputs_setFilterSpec_congr (s : Sequence) (ch : Chan) (v1 v2 : Spec)
    (hprep : Sequence.prepareForOutputting (s.setSpec (keyOf ch "filtercompensation") v1) =
      Sequence.prepareForOutputting (s.setSpec (keyOf ch "filtercompensation") v2)) :
    Sequence.outputForAWGFile (s.setSpec (keyOf ch "filtercompensation") v1) =
      Sequence.outputForAWGFile (s.setSpec (keyOf ch "filtercompensation") v2) ∧
    Sequence.outputForSEQXFile (s.setSpec (keyOf ch "filtercompensation") v1) =
      Sequence.outputForSEQXFile (s.setSpec (keyOf ch "filtercompensation") v2) ∧
    Sequence.outputForSEQXFileWithFlags (s.setSpec (keyOf ch "filtercompensation") v1) =
      Sequence.outputForSEQXFileWithFlags (s.setSpec (keyOf ch "filtercompensation") v2) := by
  have hamp : ∀ ch', SeqCore.specNum (s.setSpec (keyOf ch "filtercompensation") v1) (keyOf ch' "amplitude") =
      SeqCore.specNum (s.setSpec (keyOf ch "filtercompensation") v2) (keyOf ch' "amplitude") := by
    intro ch'
    rw [specNum_setSpec_other _ _ _ _ (Sequence.g4_keyOf_amplitude_ne_filter ch ch'),
      specNum_setSpec_other _ _ _ _ (Sequence.g4_keyOf_amplitude_ne_filter ch ch')]
  refine ⟨?_, ?_, ?_⟩
  · refine awg_congr _ _ rfl rfl hprep ?_ ?_ hamp ?_
    · rw [has_setSpec_other _ _ _ _ (Sequence.g4_keyOf_ne_SR ch _).symm,
        has_setSpec_other _ _ _ _ (Sequence.g4_keyOf_ne_SR ch _).symm]
    · intro ch'
      rw [has_setSpec_other _ _ _ _ (keyOf_offset_ne_filter ch ch'),
        has_setSpec_other _ _ _ _ (keyOf_offset_ne_filter ch ch')]
    · intro ch'
      rw [specNum_setSpec_other _ _ _ _ (keyOf_offset_ne_filter ch ch'),
        specNum_setSpec_other _ _ _ _ (keyOf_offset_ne_filter ch ch')]
  · exact seqx_congr _ _ rfl rfl rfl hprep hamp
  · exact seqxFlags_congr _ _ rfl rfl rfl hprep hamp

/-- what `setChannelFilterCompensation` leaves behind: the specification stored under the
    channel's key when the call is accepted, the unchanged sequence when it raises -/
theorem setFilter_st (s : Sequence) (ch : Chan) (kind : String) (order : Int) (isInt : Bool) (fc tau : Val) :
    (s.setChannelFilterCompensation ch kind order isInt fc tau).st =
      if Gen.filterKinds.contains kind = true ∧ isInt = true ∧ (fc = .none ∨ tau = .none) then
        s.setSpec (keyOf ch "filtercompensation") (.filt ⟨kind, order, fc, tau⟩)
      else s := by
  unfold SeqCore.setChannelFilterCompensation
  by_cases h1 : Gen.filterKinds.contains kind = true <;> by_cases h2 : isInt = true <;>
    by_cases h3 : fc = .none <;> by_cases h4 : tau = .none <;> simp_all

end G9
end BB
