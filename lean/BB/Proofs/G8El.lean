/-
  BB.Proofs.G8El — the Element programs of BB.Model.Heap never fault on well-formed heaps.
-/
import BB.Proofs.G8Bp2

namespace BB.Heap

/-! ### live cells of a given kind and owner; following keys -/

/-- a live cell of kind `k` owned by `r` -/
def Is (h : Heap) (a : Addr) (k : Kind) (r : Owner) : Prop := ∃ c : Cell, h[a]? = some c ∧ c.kind = k ∧ c.owner = r

/-- a live cell of kind `k` -/
def IsK (h : Heap) (a : Addr) (k : Kind) : Prop := ∃ c : Cell, h[a]? = some c ∧ c.kind = k

theorem Is.keeps {h h' : Heap} (kp : Keeps h h') {a : Addr} {k : Kind} {r : Owner} (hi : Is h a k r) : Is h' a k r := by
  obtain ⟨c, h1, h2, h3⟩ := hi
  obtain ⟨c', h1', h2', h3'⟩ := kp a c h1
  exact ⟨c', h1', h2'.trans h2, h3'.trans h3⟩

theorem IsK.keeps {h h' : Heap} (kp : Keeps h h') {a : Addr} {k : Kind} (hi : IsK h a k) : IsK h' a k := by
  obtain ⟨c, h1, h2⟩ := hi
  obtain ⟨c', h1', h2', _⟩ := kp a c h1
  exact ⟨c', h1', h2'.trans h2⟩

theorem Is.isK {h : Heap} {a : Addr} {k : Kind} {r : Owner} (hi : Is h a k r) : IsK h a k :=
  let ⟨c, h1, h2, _⟩ := hi; ⟨c, h1, h2⟩

/-- the address stored under `key` of the cell at `a` -/
def follow (h : Heap) (a : Addr) (key : String) : Option Addr :=
  match h[a]? with
  | some c =>
    match lookupSlot c.slots key with
    | some (.ref b) => some b
    | _ => none
  | none => none

/-- the address reached from `a` along the keys -/
def followPath (h : Heap) (a : Addr) : List String → Option Addr
  | [] => some a
  | k :: ks => match follow h a k with
    | some b => followPath h b ks
    | none => none

theorem follow_some {h : Heap} {a : Addr} {key : String} {b : Addr} (hf : follow h a key = some b) :
    ∃ c : Cell, h[a]? = some c ∧ lookupSlot c.slots key = some (.ref b) := by
  unfold follow at hf
  split at hf
  · rename_i c hc
    split at hf
    · rename_i b' hb; cases hf; exact ⟨c, hc, hb⟩
    · cases hf
  · cases hf

theorem follow_of {h : Heap} {a : Addr} {key : String} {b : Addr} {c : Cell} (hc : h[a]? = some c)
    (hl : lookupSlot c.slots key = some (.ref b)) : follow h a key = some b := by
  simp [follow, hc, hl]

theorem runs_follow {base : Nat} {r : Owner} {a : Addr} {k : String} {h : Heap} {b : Addr}
    {Q : Addr → Heap → Prop} (hf : follow h a k = some b) (hq : Q b h) : Runs base r (refAt a k) h Q := by
  obtain ⟨c, hc, hl⟩ := follow_some hf
  exact runs_refAt hc hl hq

/-- where a followed key of a well-formed cell leads -/
theorem good_follow {h : Heap} (hg : Good h) {a : Addr} {key : String} {b : Addr} (hf : follow h a key = some b) :
    ∃ c cb : Cell, h[a]? = some c ∧ h[b]? = some cb ∧ allowed c.kind key (some cb.kind) = true ∧
      (cb.kind.frozen = true ∨ cb.owner = c.owner) := by
  obtain ⟨c, hc, hl⟩ := follow_some hf
  obtain ⟨cb, h1, h2, h3⟩ := good_ref hg hc (mem_of_lookupSlot hl)
  exact ⟨c, cb, hc, h1, h2, h3⟩

/-- a followed key of a non-frozen-kinded target stays with the owner -/
theorem is_follow {h : Heap} (hg : Good h) {a : Addr} {k : Kind} {r : Owner} (ha : Is h a k r) {key : String} {b : Addr}
    (hf : follow h a key = some b) {k' : Kind} (hk : ∀ kk, allowed k key (some kk) = true → kk = k')
    (hnf : k'.frozen = false) : Is h b k' r := by
  obtain ⟨c, cb, hc, hcb, hal, hown⟩ := good_follow hg hf
  obtain ⟨c0, hc0, hk0, ho0⟩ := ha
  rw [hc] at hc0; cases hc0
  rw [hk0] at hal
  have := hk _ hal
  refine ⟨cb, hcb, this, ?_⟩
  rcases hown with hf' | ho
  · rw [this, hnf] at hf'; cases hf'
  · rw [ho, ho0]

theorem follow_sub {h h' : Heap} (s : Sub h h') {a : Addr} {key : String} {b : Addr} (hf : follow h a key = some b) :
    follow h' a key = some b := by
  obtain ⟨c, hc, hl⟩ := follow_some hf
  exact follow_of (s a c hc) hl

/-- an object's attribute that must be a reference is one -/
theorem follow_attr {h : Heap} (hg : Good h) {a : Addr} {c : Cell} (hc : h[a]? = some c) {keys : List String}
    (hk : fixedKeys c.kind = some keys) {key : String} (hkey : key ∈ keys) (hno : allowed c.kind key none = false) :
    ∃ b : Addr, follow h a key = some b := by
  have hkeys := cellOk_keys (hg.typed a c hc) hk
  obtain ⟨b, _, hl, _, _⟩ := cellOk_lookup_ref (hg.typed a c hc) (by rw [hkeys]; exact hkey) hno
  exact ⟨b, follow_of hc hl⟩

/-! ### which old cells element-level and most sequence-level methods may rewrite: anything but
    sequence objects and their element stores -/

abbrev pLow : Addr → Kind → Bool := fun _ k => !k.isSeq

theorem Evo.low_of_bp {r : Owner} {h h' : Heap} (e : Evo r pBp h h') : Evo r pLow h h' :=
  e.weaken (fun a k _ hq => by revert hq; cases k <;> simp [Kind.isSeq])

/-- the kinds through which the paths to stored elements, channels and blueprints go -/
def Kind.isPath : Kind → Bool
  | .sqObj => true | .sqData => true | .elObj => true | .elData => true | .elChan => true
  | _ => false

/-- only cells off those paths may have been rewritten -/
abbrev pLeaf : Addr → Kind → Bool := fun _ k => !k.isPath

/-- … and the element store `d` of the sequence -/
abbrev pStore (d : Addr) : Addr → Kind → Bool := fun a k => !k.isPath || (k == .sqData && a == d)

theorem Evo.leaf_of_bp {r : Owner} {h h' : Heap} (e : Evo r pBp h h') : Evo r pLeaf h h' :=
  e.weaken (fun a k _ hq => by revert hq; cases k <;> simp [Kind.isPath])

theorem Evo.low_of_leaf {r : Owner} {h h' : Heap} (e : Evo r pLeaf h h') : Evo r pLow h h' :=
  e.weaken (fun a k _ hq => by revert hq; cases k <;> simp [Kind.isPath, Kind.isSeq])

theorem Evo.store_of_leaf {r : Owner} {d : Addr} {h h' : Heap} (e : Evo r pLeaf h h') : Evo r (pStore d) h h' :=
  e.weaken (fun a k _ hq => by
    simp only [pStore, Bool.or_eq_false_iff] at hq
    exact hq.1)

theorem Evo.low_of_none {r : Owner} {P : Addr → Kind → Bool} {h h' : Heap} (e : Evo r pNone h h') : Evo r P h h' :=
  e.weaken (fun _ _ _ _ => rfl)

/-! ### the parts of an element -/

structure ElParts (h : Heap) (e : Addr) (r : Owner) (d m : Addr) : Prop where
  data : follow h e "_data" = some d
  cache : follow h e "_meta" = some m
  isData : Is h d .elData r
  isCache : Is h m .cache r

theorem el_parts {h : Heap} (hg : Good h) {e : Addr} {r : Owner} (he : Is h e .elObj r) :
    ∃ d m : Addr, ElParts h e r d m := by
  obtain ⟨c, hc, hk, ho⟩ := he
  obtain ⟨d, hd⟩ := follow_attr hg hc (keys := ["_data", "_meta"]) (by rw [hk]; rfl) (key := "_data") (by simp)
    (by rw [hk]; rfl)
  obtain ⟨m, hm⟩ := follow_attr hg hc (keys := ["_data", "_meta"]) (by rw [hk]; rfl) (key := "_meta") (by simp)
    (by rw [hk]; rfl)
  refine ⟨d, m, hd, hm, ?_, ?_⟩
  · exact is_follow hg ⟨c, hc, hk, ho⟩ hd (fun kk hal => by simpa [allowed] using hal) rfl
  · exact is_follow hg ⟨c, hc, hk, ho⟩ hm (fun kk hal => by simpa [allowed] using hal) rfl

/-- the slots of an element object are exactly its two attributes -/
theorem el_slots {h : Heap} (hg : Good h) {e : Addr} {c : Cell} (hc : h[e]? = some c) (hk : c.kind = .elObj)
    {d m : Addr} (hd : follow h e "_data" = some d) (hm : follow h e "_meta" = some m) :
    c.slots = [("_data", .ref d), ("_meta", .ref m)] := by
  have hkeys := cellOk_keys (hg.typed e c hc) (keys := ["_data", "_meta"]) (by rw [hk]; rfl)
  obtain ⟨c1, hc1, hl1⟩ := follow_some hd
  obtain ⟨c2, hc2, hl2⟩ := follow_some hm
  rw [hc] at hc1 hc2; cases hc1; cases hc2
  match hs : c.slots, hkeys with
  | [(k1, s1), (k2, s2)], hkeys =>
    rw [hs] at hl1 hl2
    simp only [List.map_cons, List.map_nil, List.cons.injEq, and_true] at hkeys
    obtain ⟨rfl, rfl⟩ := hkeys
    simp [lookupSlot, List.lookup] at hl1 hl2
    rw [hl1, hl2]

