/-
  BB.Proofs.G13Forge — helper lemmas for C01 at its second observation point
  (`Sequence.forge()[pos]['content'][1]['data'][ch]`):
  * the delayed blueprint read backwards: if the *delayed* blueprint forges, the stored one does,
    and both paddings are absent or at least two samples long;
  * the forged channel of the delayed blueprint in terms of the forged channel of the stored one
    (`DelayedForged`): blocks, lengths of waveform / markers / time axis;
  * one element through `forge`'s delay step and `getArrays`, without any evaluability hypothesis.
-/
import BB.Properties.C10
import BB.Proofs.G11Elem

namespace BB.G13
open BB BP Element

/-- the counts of an appended duration list: both parts succeed -/
theorem countsGo_append_inv (sr : ℚ) (a c : List ℚ) (ns : List ℕ) (h : countsGo sr (a ++ c) = .ok ns) :
    ∃ na nc, countsGo sr a = .ok na ∧ countsGo sr c = .ok nc ∧ ns = na ++ nc := by
  have h2 := (countsGo_ok sr _ ns h).1
  obtain ⟨na, hna⟩ := (countsGo_isOk_iff sr a).mpr (fun d hd => h2 d (by simp [hd]))
  obtain ⟨nc, hnc⟩ := (countsGo_isOk_iff sr c).mpr (fun d hd => h2 d (by simp [hd]))
  refine ⟨na, nc, hna, hnc, ?_⟩
  have := C10.countsGo_append sr a c na nc hna hnc
  rw [h] at this
  exact Except.ok.inj this

/-- **the delayed blueprint, read backwards**: if the blueprint `_applyDelays` builds forges, then
    the stored blueprint resolves its waits, every one of its segments gets at least two samples,
    it holds no uncallable special segment, and each padding segment that was inserted got at least
    two samples. -/
theorem delayed_forge_inv (b : BP) (sr delay maxdelay : ℚ) (f' : Forged) (hsr : b.SR = .num sr) (h0 : 0 ≤ delay)
    (hf' : forgeBP (delayBP b delay maxdelay).st = .ok f') :
    ∃ ds ns, b.resolveWaits = .ok ds ∧ countsGo sr ds = .ok ns ∧ badSpecial b = false ∧
      (0 < delay → 2 ≤ rhe (delay * sr)) ∧ (0 < maxdelay - delay → 2 ≤ rhe ((maxdelay - delay) * sr)) := by
  obtain ⟨_, hbody, _, _, hS⟩ := delayBP_spec b delay maxdelay
  obtain ⟨sr', ds', ns', hsr', hd', hn', hb', _⟩ := (forge_ok_iff _ f').mp hf'
  rw [hS, hsr] at hsr'
  cases hsr'
  obtain ⟨ds, hds, rfl⟩ := G11.delayBP_resolve_inv b delay maxdelay ds' h0 hd'
  have h2 := (countsGo_ok sr _ ns' hn').1
  obtain ⟨ns, hns⟩ := (countsGo_isOk_iff sr ds).mpr (fun d hd => h2 d (by simp [hd]))
  refine ⟨ds, ns, hds, hns, ?_, ?_, ?_⟩
  · rw [badSpecial_body (delayBP b delay maxdelay).st { b with segs := delayedSegs b.segs delay maxdelay } hbody] at hb'
    unfold badSpecial delayedSegs at hb'
    simp only [List.any_append, Bool.or_eq_false_iff] at hb'
    have hm := hb'.1.2
    rw [List.any_map] at hm
    have : ((fun s : Seg => s.fn.special && !s.fn.isWait) ∘ shiftWait delay) = (fun s : Seg => s.fn.special && !s.fn.isWait) := by
      funext s; simp [Function.comp, shiftWait_isWait]
    rw [this] at hm
    exact hm
  · intro hp
    have := h2 delay (by simp [hp])
    simpa [segCount] using this
  · intro hp
    have := h2 (maxdelay - delay) (by simp [hp])
    simpa [segCount] using this

/-- **the forged channel of the delayed blueprint in terms of the forged channel of the stored
    one** (`f` = `forgeBP b`, `f'` = `forgeBP` of what `_applyDelays` makes of `b`):
    * same sample rate;
    * the blocks are: one `waituntil` block of `round(delay·SR)` zeros if `delay > 0`, then one
      block per stored segment, in order, with the stored segments' own sample counts (the stored
      segments with their `waituntil` targets moved by the delay), then one zero ramp of
      `round((maxdelay − delay)·SR)` samples if `maxdelay > delay`;
    * each padding present has at least two samples;
    * waveform blocks, marker 1, marker 2 and time axis (`k/SR`, `k < N`) have one common length
      `N' = front + N + back`. -/
def DelayedForged (b : BP) (sr delay maxdelay : ℚ) (f f' : Forged) : Prop :=
  f'.SR = f.SR ∧
  f'.blocks =
    (if 0 < delay then [Blk.call Fn.waitCallable [.num delay] sr (rhe (delay * sr)).toNat] else []) ++
    mkBlocks sr (b.segs.map (shiftWait delay)) (f.blocks.map Blk.len) ++
    (if 0 < maxdelay - delay then [Blk.call Fn.rampFn [.num 0, .num 0] sr (rhe ((maxdelay - delay) * sr)).toNat] else []) ∧
  (mkBlocks sr (b.segs.map (shiftWait delay)) (f.blocks.map Blk.len)).map Blk.len = f.blocks.map Blk.len ∧
  (0 < delay → 2 ≤ rhe (delay * sr)) ∧ (0 < maxdelay - delay → 2 ≤ rhe ((maxdelay - delay) * sr)) ∧
  f'.N = (if 0 < delay then (rhe (delay * sr)).toNat else 0) + f.N +
    (if 0 < maxdelay - delay then (rhe ((maxdelay - delay) * sr)).toNat else 0) ∧
  f'.m1.length = f'.N ∧ f'.m2.length = f'.N ∧ sumN (f'.blocks.map Blk.len) = f'.N

/-- **whenever the delayed blueprint forges, the stored one forges, and the two forged channels are
    related by `DelayedForged`** (no hypothesis on the paddings or on evaluability) -/
theorem delayed_forge_structure (b : BP) (sr delay maxdelay : ℚ) (f' : Forged) (hsr : b.SR = .num sr) (h0 : 0 ≤ delay)
    (hf' : forgeBP (delayBP b delay maxdelay).st = .ok f') :
    ∃ f, forgeBP b = .ok f ∧ DelayedForged b sr delay maxdelay f f' := by
  obtain ⟨ds, ns, hds, hns, hb, hfr, hbk⟩ := delayed_forge_inv b sr delay maxdelay f' hsr h0 hf'
  have hf : forgeBP b = .ok (assemble b sr ns) := (forge_ok_iff b _).mpr ⟨sr, ds, ns, hsr, hds, hns, hb, rfl⟩
  have hl : ns.length = b.segs.length := by
    rw [countsGo_length sr ds ns hns]; exact resolveGo_length _ _ _ hds
  have hfd := C10.delayed_forge b sr delay maxdelay ds ns hsr hds hns hb h0 hfr hbk
  rw [hf'] at hfd
  have hfe := Except.ok.inj hfd
  have hbl : (assemble b sr ns).blocks.map Blk.len = ns := mkBlocks_lens sr b.segs ns hl
  have hlm : (mkBlocks sr (b.segs.map (shiftWait delay)) ns).map Blk.len = ns :=
    mkBlocks_lens sr _ ns (by simp [hl])
  have hdl : (C10.delayedCounts sr delay maxdelay ns).length = (delayedSegs b.segs delay maxdelay).length := by
    unfold C10.delayedCounts delayedSegs
    by_cases hp : 0 < delay <;> by_cases hq : 0 < maxdelay - delay <;> simp [hp, hq, hl]
  have hal := assemble_lengths { b with segs := delayedSegs b.segs delay maxdelay } sr
    (C10.delayedCounts sr delay maxdelay ns) hdl
  simp only at hal
  refine ⟨_, hf, ?_⟩
  rw [hfe]
  refine ⟨rfl, ?_, ?_, hfr, hbk, ?_, hal.2.1, hal.2.2.1, hal.2.2.2.1⟩
  · rw [C10.delayed_blocks b sr delay maxdelay ns hl, hbl]
  · rw [hbl]; exact hlm
  · rw [hal.1, C10.delayed_length]
    rfl

/-- **with whole-sample delays** (`delay·SR = D`, `maxdelay·SR = M`, `D ≤ M`, positive sample rate)
    the common length is the stored channel's plus `M`, and the blocks have lengths
    `[D] ++ (the stored blocks' lengths) ++ [M − D]` (a padding of 0 samples is absent) -/
theorem delayedForged_whole (b : BP) (sr delay maxdelay : ℚ) (f f' : Forged) (h : DelayedForged b sr delay maxdelay f f')
    (D M : ℕ) (hsr0 : 0 < sr) (hD : delay * sr = D) (hM : maxdelay * sr = M) (hle : D ≤ M) :
    f'.N = f.N + M ∧ f'.m1.length = f.N + M ∧ f'.m2.length = f.N + M ∧ sumN (f'.blocks.map Blk.len) = f.N + M ∧
    f'.blocks.map Blk.len =
      (if 0 < D then [D] else []) ++ f.blocks.map Blk.len ++ (if 0 < M - D then [M - D] else []) ∧
    (D = 0 ∨ 2 ≤ D) ∧ (M - D = 0 ∨ 2 ≤ M - D) := by
  obtain ⟨_, hbl, hlm, hfr, hbk, hN, h1, h2, h3⟩ := h
  obtain ⟨hdpos, _⟩ := C10.pos_of_whole sr delay D hsr0 hD
  have hMD : (maxdelay - delay) * sr = ((M - D : ℕ) : ℚ) := by
    rw [sub_mul, hD, hM]; push_cast [Nat.cast_sub hle]; ring
  obtain ⟨hbpos, _⟩ := C10.pos_of_whole sr (maxdelay - delay) (M - D) hsr0 hMD
  have e1 : rhe (delay * sr) = (D : ℤ) := by rw [hD]; exact C10.rhe_natCast D
  have e2 : rhe ((maxdelay - delay) * sr) = ((M - D : ℕ) : ℤ) := by rw [hMD]; exact C10.rhe_natCast _
  have hNN : f'.N = f.N + M := by
    rw [hN, e1, e2]
    by_cases hp : 0 < delay <;> by_cases hq : 0 < maxdelay - delay
    · simp only [hp, hq, if_true, Int.toNat_natCast]; omega
    · have : ¬ 0 < M - D := fun h => hq (hbpos.mpr h)
      simp only [hp, hq, if_true, if_false, Int.toNat_natCast]; omega
    · have : ¬ 0 < D := fun h => hp (hdpos.mpr h)
      simp only [hp, hq, if_true, if_false, Int.toNat_natCast]; omega
    · have : ¬ 0 < D := fun h => hp (hdpos.mpr h)
      have : ¬ 0 < M - D := fun h => hq (hbpos.mpr h)
      simp only [hp, hq, if_false]; omega
  refine ⟨hNN, by rw [h1, hNN], by rw [h2, hNN], by rw [h3, hNN], ?_, ?_, ?_⟩
  · rw [hbl, List.map_append, List.map_append, hlm, e1, e2]
    congr 1
    · congr 1
      by_cases hp : 0 < delay
      · have := hdpos.mp hp
        simp [hp, this, Blk.len]
      · have : ¬ 0 < D := fun h => hp (hdpos.mpr h)
        simp [hp, this]
    · by_cases hq : 0 < maxdelay - delay
      · have := hbpos.mp hq
        simp [hq, this, Blk.len]
      · have : ¬ 0 < M - D := fun h => hq (hbpos.mpr h)
        simp [hq, this]
  · by_cases hp : 0 < D
    · have := hfr (hdpos.mpr hp)
      rw [e1] at this
      right; omega
    · left; omega
  · by_cases hq : 0 < M - D
    · have := hbk (hbpos.mpr hq)
      rw [e2] at this
      right; omega
    · left; omega

/-- **one element through `forge`'s delay step and `getArrays`, blueprint channel `k`** — no
    hypothesis beyond the success of both steps: the delays `ds` are the ones looked up by the
    element's own channel ids, the element has a numeric sample rate `sr`, the stored blueprint
    forges (to `f`), and channel `k` of the result — same id, same flags, time option as asked —
    is a forged channel `f'` related to `f` by `DelayedForged` (delay `ds[k]`, maximum `max ds`). -/
theorem delayed_element_bp_structure (s : Sequence) (e e' : Element) (hde : s.delayElement e = .ok e')
    (t : Bool) (arr : Dict Chan ChOut) (harr : e'.getArrays t = .ok arr)
    (k : ℕ) (hk : k < e.chans.length) (b : BP) (hb : (e.chans[k]).2.data = .bp b) :
    ∃ ds sr, e.channels.mapM s.delayOf = .ok ds ∧ e.getSR = .ok (.num sr) ∧ b.SR = .num sr ∧
      ∃ (hkd : k < ds.length) (ka : k < arr.length) (f f' : Forged),
        s.delayOf (e.chans[k]).1 = .ok ds[k] ∧ 0 ≤ ds[k] ∧ ds[k] ≤ maxR ds ∧
        forgeBP b = .ok f ∧ arr[k] = ((e.chans[k]).1, ChOut.forged f' (e.chans[k]).2.flags t) ∧
        DelayedForged b sr ds[k] (maxR ds) f f' := by
  obtain ⟨ds, hds, herr, hst⟩ := Sequence.g4_delayElement_ok s e e' hde
  obtain ⟨m, sr, hv, hm, hlen, hl, _⟩ := g4_applyDelays_getElem e ds herr
  have hsr : e.getSR = .ok (.num sr) := by
    unfold Element.getSR
    rw [hv]
    simp only [Except.map, hm]
  have hkd : k < ds.length := by omega
  obtain ⟨hla, _⟩ := g4_getArrays_getElem e' t arr harr
  have ka : k < arr.length := by rw [hla, ← hst]; omega
  obtain ⟨_, _, hnn⟩ := C10.delay_step_facts s e e' ds hds hde
  obtain ⟨f', hf', ha⟩ := C10.delayed_element_bp_forged s e e' ds hds hde k hk hkd b hb t arr harr ka
  have hbsr := C10.bp_channel_SR e sr hsr k hk b hb
  obtain ⟨f, hf, hdf⟩ := delayed_forge_structure b sr ds[k] (maxR ds) f' hbsr (hnn _ (List.getElem_mem hkd)) hf'
  refine ⟨ds, sr, hds, hsr, hbsr, hkd, ka, f, f', ?_, hnn _ (List.getElem_mem hkd),
    Paths.le_maxR ds _ (List.getElem_mem hkd), hf, ha, hdf⟩
  have := C10.delays_by_channel_id s e ds hds k (by simpa [Element.channels, Dict.keys] using hk) hkd
  simpa [Element.channels, Dict.keys] using this

end BB.G13
