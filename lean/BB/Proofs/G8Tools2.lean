/-
  BB.Proofs.G8Tools2 — `repeatAndVarySequence` never faults on well-formed heaps.
-/
import BB.Proofs.G8Tools

namespace BB.Heap

theorem pLeaf_seq : ∀ (a : Addr) (k : Kind), k.isSeq = true → pLeaf a k = false := by
  intro a k hk; revert hk; cases k <;> simp [Kind.isSeq, Kind.isPath]

/-- the positions edited in the input can be edited in a copy of it -/
theorem sqBp_copy {r : Owner} {h : Heap} {seq t d d' : Addr} (_hg : Good h) (c : SqCopied h r seq t d d')
    {pos ch : String} (hb : SqBp h seq pos ch) : SqBp h t pos ch := by
  obtain ⟨e, hp, hie, hbp⟩ := hb
  obtain ⟨d1, hd1, hp2⟩ := followPath_cons hp
  obtain ⟨e1, he1, hp3⟩ := followPath_cons hp2
  cases followPath_nil hp3
  have hdd : d1 = d := by have := c.srcData; rw [hd1] at this; cases this; rfl
  subst hdd
  obtain ⟨e', he', hcopy⟩ := follow_copy c.dataCopy he1
  obtain ⟨ce, ce', x1, x2, x3⟩ := hcopy.kind
  obtain ⟨ce0, y1, y2⟩ := hie
  rw [x1] at y1; cases y1
  exact ⟨e', followPath2 c.data he', ⟨ce', x2, x3.trans y2⟩, hbp.copy hcopy⟩

/-- **`repeatAndVarySequence` never faults** when the input's stored subsequences are flat and
    every edited position holds an element whose edited channel holds a blueprint: a fresh
    sequence with a deep copy of the input's settings, and per step an edited copy appended -/
theorem tlRepVary_spec {r : Owner} {h : Heap} {seq : Addr} (tok : Nat) (steps : Nat)
    (edits : List (String × String)) (hg : Good h) (hseq : IsK h seq .sqObj) (hf : SubsFlat h seq)
    (hed : ∀ pe ∈ edits, SqBp h seq pe.1 pe.2) :
    Runs 0 r (tlRepVary tok seq steps edits) h (fun x h' => h.length ≤ x ∧ Good h' ∧ Keeps h h' ∧
      Is h' x .sqObj r ∧ SubsFlat h' x) := by
  unfold tlRepVary
  obtain ⟨cseq, hcseq, hkseq⟩ := hseq
  apply runs_bind
  apply runs_mono (sqNew_spec hg)
  intro s0 h1 ⟨hfresh, e1, his0, d0, hd0, hfd0, hcd0⟩
  obtain ⟨dq, qq, w, mq, pq⟩ := sq_parts e1.good (r := cseq.owner) ⟨cseq, e1.sub seq cseq hcseq, hkseq, rfl⟩
  apply runs_bind
  apply runs_follow pq.specs
  apply runs_bind
  apply runs_mono (deepCopyAddr_spec h1 w e1.good (fits_low e1.good pq.isSpecs.isK rfl))
  intro w' h2 ⟨hfw, e2, hcw⟩
  have hiw' : Is h2 w' .awgspecs r := is_of_copy (e1.trans e2) (Nat.le_trans e1.len hfw)
    (pq.isSpecs.sub e2.sub).isK hcw
  obtain ⟨cs0, hcs0, hks0, hos0⟩ := his0.sub e2.sub
  have hkey : "_awgspecs" ∈ cs0.slots.map (·.1) := by
    rw [cellOk_keys (e2.good.typed s0 cs0 hcs0) (keys := sqKeys) (by rw [hks0]; rfl)]; simp [sqKeys]
  apply runs_bind
  apply runs_upsert (P := pFrom h.length) e2.good hcs0 (Is.writable hcs0 ⟨cs0, hcs0, hks0, hos0⟩ rfl)
    (Or.inl (Nat.zero_le _))
  · rw [hks0, hos0]; exact slotsOk_one_own rfl hiw'
  · rw [hks0]; exact slotOkT_is hiw' (by simp [allowed])
  · exact Or.inr hkey
  · simp [hfresh]
  intro h3 e3 hs03 hother
  -- everything that existed is as it was
  have e03 : Evo r pNone h h3 :=
    ((e1.trans e2).low_of_none.trans e3).weaken (fun a k ha _ => by simp; omega)
  -- the starting sequence is empty
  have his3 : Is h3 s0 .sqObj r := ⟨_, hs03, hks0, hos0⟩
  have hsf3 : SubsFlat h3 s0 := by
    obtain ⟨d0', q0, w0, m0, p0⟩ := sq_parts e2.good ⟨cs0, hcs0, hks0, hos0⟩
    have hdd : d0' = d0 := by
      have := p0.data; rw [follow_sub e2.sub hd0] at this; cases this; rfl
    subst hdd
    obtain ⟨t, hslots⟩ := sq_slots e2.good hcs0 hks0 p0
    rw [subsFlat_iff]
    intro cs x hcs hm
    rw [hs03] at hcs; cases hcs
    have hx : x = d0' := by
      rcases mem_upsertSlot hm with hnew | hold
      · simp at hnew
      · rw [hslots] at hold; simpa using hold
    subst hx
    intro cd hcd ks hks
    have hne : x ≠ s0 := by
      intro heq; subst heq
      rw [e2.sub _ _ hcd0] at hcs0; cases hcs0; cases hks0
    rw [hother x hne, e2.sub _ _ hcd0] at hcd; cases hcd
    simp at hks
  refine runs_mono (runs_foldlM _ (fun _ acc hx => Evo r pLeaf h hx ∧ h.length ≤ acc ∧ Is hx acc .sqObj r ∧
      SubsFlat hx acc) (List.range steps) [] s0 h3 ⟨e03.low_of_none, hfresh, his3, hsf3⟩ ?_) ?_
  · intro dn _ rest acc hx _ ⟨ex, hfacc, hiacc, hsfacc⟩
    have hseqx : IsK hx seq .sqObj := IsK.keeps ex.keeps ⟨cseq, hcseq, hkseq⟩
    have hfx : SubsFlat hx seq := SubsFlat.keep ex hg pLeaf_seq ⟨cseq, hcseq, hkseq⟩ hf
    apply runs_bind
    apply runs_mono (sqCopy_spec ex.good hseqx hfx)
    intro t hy ⟨_, ey, d, d', _, hcop⟩
    have hsft : SubsFlat hy t := (sqCopied_flat ey ex.good hseqx hcop).1 hfx
    have hsqt : ∀ pe ∈ edits, SqBp hy t pe.1 pe.2 := by
      intro pe hpe
      have h0 := (hed pe hpe).keep hg ex.keeps ex.kept ⟨cseq, hcseq, hkseq, rfl⟩
      have h1 := h0.keep ex.good ey.keeps ey.sub.kept (Is.keeps ex.keeps ⟨cseq, hcseq, hkseq, rfl⟩)
      exact sqBp_copy ey.good hcop h1
    apply runs_bind
    refine runs_mono (runs_forIn _ (fun _ hz => Evo r pLeaf hy hz) edits [] hy (Evo.refl ey.good) ?_) ?_
    · intro dn2 pe rest2 hz heq ez
      have hpe : pe ∈ edits := by
        have : pe ∈ dn2 ++ pe :: rest2 := by simp
        rw [← heq] at this; simpa using this
      apply runs_bind
      apply runs_mono (sqElMutate_spec tok pe.1 pe.2 ez.good (hcop.isNew.keeps ez.keeps)
        ((hsqt pe hpe).keep ey.good ez.keeps ez.kept hcop.isNew))
      intro _ hz2 ez2
      exact runs_pure ⟨rfl, ez.trans ez2⟩
    · intro _ hz ez
      have eyz : Evo r pLeaf hx hz := ey.low_of_none.trans ez
      apply runs_mono (sqAdd_spec ez.good (hiacc.keeps eyz.keeps).isK (hcop.isNew.keeps ez.keeps).isK
        (SubsFlat.keep eyz ex.good pLeaf_seq hiacc.isK hsfacc)
        (SubsFlat.keep ez ey.good pLeaf_seq hcop.isNew.isK hsft))
      intro x hw ⟨hfx2, ew, hix, hsfx⟩
      refine ⟨(ex.trans eyz).trans ew.low_of_none, ?_, hix, hsfx⟩
      exact Nat.le_trans (Nat.le_trans ex.len eyz.len) hfx2
  · intro x hx ⟨ex, hfx, hix, hsfx⟩
    exact ⟨hfx, ex.good, ex.keeps, hix, hsfx⟩

end BB.Heap
