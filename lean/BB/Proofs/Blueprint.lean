/-
  BB.Proofs.Blueprint — invariants of the blueprint model: names are always the canonical
  renumbering of their own bases; every operation preserves that; edits touch only their target.
-/
import BB.Proofs.Names
import BB.Model.Blueprint

namespace BB
namespace BP

/-- everything of a segment except its name -/
def Seg.body (s : Seg) : Seg := { s with name := "" }

/-- the invariant: the name list is a fixed point of `_make_names_unique` -/
def Inv (b : BP) : Prop := makeNamesUnique b.names = b.names

theorem setNames_names (segs : List Seg) (ns : List String) (h : segs.length = ns.length) :
    (setNames segs ns).map (·.name) = ns := by
  induction segs generalizing ns with
  | nil => cases ns with
    | nil => rfl
    | cons n ns => simp at h
  | cons s ss ih =>
    cases ns with
    | nil => simp at h
    | cons n ns =>
      simp only [setNames, List.map_cons, List.cons.injEq, true_and]
      exact ih ns (by simpa using h)

theorem setNames_length (segs : List Seg) (ns : List String) :
    (setNames segs ns).length = segs.length := by
  induction segs generalizing ns with
  | nil => cases ns <;> rfl
  | cons s ss ih => cases ns with
    | nil => rfl
    | cons n ns => simp [setNames, ih]

/-- renaming changes nothing but names -/
theorem setNames_body (segs : List Seg) (ns : List String) :
    (setNames segs ns).map Seg.body = segs.map Seg.body := by
  induction segs generalizing ns with
  | nil => cases ns <;> rfl
  | cons s ss ih => cases ns with
    | nil => rfl
    | cons n ns => simp [setNames, ih, Seg.body]

theorem renumber_names (segs : List Seg) :
    (renumber segs).map (·.name) = makeNamesUnique (segs.map (·.name)) := by
  unfold renumber
  apply setNames_names
  simp [makeNamesUnique_length]

theorem renumber_length (segs : List Seg) : (renumber segs).length = segs.length :=
  setNames_length _ _

theorem renumber_body (segs : List Seg) : (renumber segs).map Seg.body = segs.map Seg.body :=
  setNames_body _ _

theorem inv_renumber (b : BP) (segs : List Seg) : Inv { b with segs := renumber segs } := by
  unfold Inv names
  simp only [renumber_names, makeNamesUnique_idem]

theorem inv_empty : Inv ({} : BP) := by
  unfold Inv names makeNamesUnique makeNamesUniqueL
  rfl

theorem inv_nodup {b : BP} (h : Inv b) : b.names.Nodup := by
  rw [← h]; exact makeNamesUnique_nodup _

/-! ### operations preserve the invariant -/

theorem modify_names (segs : List Seg) (i : Nat) (f : Seg → Seg) (hf : ∀ s, (f s).name = s.name) :
    (segs.modify i f).map (·.name) = segs.map (·.name) := by
  induction segs generalizing i with
  | nil => simp
  | cons s ss ih =>
    cases i with
    | zero => simp [List.modify_zero_cons, hf]
    | succ i => simp [List.modify_succ_cons, ih]

theorem inv_modifySeg {b : BP} (h : Inv b) (i : Nat) (f : Seg → Seg) (hf : ∀ s, (f s).name = s.name) :
    Inv (b.modifySeg i f) := by
  unfold Inv names modifySeg at *
  simp only [modify_names _ _ _ hf]
  exact h

theorem inv_insertSegment {b : BP} (h : Inv b) (pos : Int) (fn : Fn) (args : List Val) (dur name : Val) :
    Inv (b.insertSegment pos fn args dur name).st := by
  unfold insertSegment
  split
  · exact h
  · split
    · exact h
    · exact inv_renumber _ _

theorem inv_removeSegment {b : BP} (h : Inv b) (name : String) : Inv (b.removeSegment name).st := by
  unfold removeSegment
  split
  · exact h
  · exact inv_renumber _ _

theorem inv_changeArgOne {b : BP} (h : Inv b) (nm : String) (arg value : Val) :
    Inv (b.changeArgOne nm arg value).st := by
  unfold changeArgOne
  split
  · exact h
  · split
    · exact h
    · split
      · exact h
      · split
        · exact h
        · split
          · exact inv_modifySeg h _ _ (fun s => rfl)
          · exact h

theorem inv_changeArgLoop {b : BP} (h : Inv b) (l : List String) (arg value : Val) :
    Inv (b.changeArgLoop l arg value).st := by
  induction l generalizing b with
  | nil => exact h
  | cons nm rest ih =>
    unfold changeArgLoop
    have h1 := inv_changeArgOne h nm arg value
    generalize b.changeArgOne nm arg value = r at h1
    obtain ⟨st, err⟩ := r
    cases err with
    | none => exact ih h1
    | some e => exact h1

theorem inv_changeArg {b : BP} (h : Inv b) (name : String) (arg value : Val) (all : Bool) :
    Inv (b.changeArg name arg value all).st := by
  unfold changeArg
  split
  · exact h
  · exact inv_changeArgLoop h _ _ _

theorem map_names_of_name_eq (segs : List Seg) (f : Seg → Seg) (hf : ∀ s, (f s).name = s.name) :
    (segs.map f).map (·.name) = segs.map (·.name) := by
  simp [List.map_map, Function.comp_def, hf]

theorem setDur_name (tgts : List String) (d : Rat) (s : Seg) : (setDur tgts d s).name = s.name := by
  unfold setDur; split <;> rfl

theorem setMark_name (mid : Int) (m : Mark) (s : Seg) : (setMark mid m s).name = s.name := by
  unfold setMark; split <;> rfl

theorem inv_changeDuration {b : BP} (h : Inv b) (name : String) (dur : Val) (all : Bool) :
    Inv (b.changeDuration name dur all).st := by
  unfold changeDuration
  split
  · split
    · exact h
    · split
      · exact h
      · split
        · exact h
        · unfold Inv names at *
          simp only
          rw [map_names_of_name_eq _ _ (setDur_name _ _)]
          exact h
  · exact h

theorem inv_setSegmentMarker {b : BP} (h : Inv b) (name : String) (specs : Mark) (mid : Int) :
    Inv (b.setSegmentMarker name specs mid).st := by
  unfold setSegmentMarker
  split
  · exact h
  · split
    · exact h
    · exact inv_modifySeg h _ _ (setMark_name _ _)

theorem inv_removeSegmentMarker {b : BP} (h : Inv b) (name : String) (mid : Int) :
    Inv (b.removeSegmentMarker name mid).st := by
  unfold removeSegmentMarker
  split
  · exact h
  · split
    · exact h
    · exact inv_modifySeg h _ _ (setMark_name _ _)

theorem inv_copy (b : BP) : Inv b.copy := inv_renumber _ _

theorem inv_add (a b : BP) : Inv (a.add b) := by
  unfold add
  exact inv_renumber { segs := [], marker1 := a.marker1 ++ b.marker1, marker2 := a.marker2 ++ b.marker2, SR := a.SR } _

/-! ### histories -/

/-- the public mutators of a blueprint -/
inductive Op where
  | insert (pos : Int) (fn : Fn) (args : List Val) (dur name : Val)
  | remove (name : String)
  | changeArg (name : String) (arg value : Val) (all : Bool)
  | changeDur (name : String) (dur : Val) (all : Bool)
  | setSegMarker (name : String) (specs : Mark) (mid : Int)
  | removeSegMarker (name : String) (mid : Int)
  | setMarker1 (l : List Mark)
  | setMarker2 (l : List Mark)
  | setSR (v : Val)

def step (b : BP) : Op → Res BP
  | .insert pos fn args dur name => b.insertSegment pos fn args dur name
  | .remove name => b.removeSegment name
  | .changeArg name arg value all => b.changeArg name arg value all
  | .changeDur name dur all => b.changeDuration name dur all
  | .setSegMarker name specs mid => b.setSegmentMarker name specs mid
  | .removeSegMarker name mid => b.removeSegmentMarker name mid
  | .setMarker1 l => ⟨{ b with marker1 := l }, none⟩
  | .setMarker2 l => ⟨{ b with marker2 := l }, none⟩
  | .setSR v => ⟨{ b with SR := v }, none⟩

theorem inv_step {b : BP} (h : Inv b) (o : Op) : Inv (b.step o).st := by
  cases o with
  | insert => exact inv_insertSegment h ..
  | remove => exact inv_removeSegment h ..
  | changeArg => exact inv_changeArg h ..
  | changeDur => exact inv_changeDuration h ..
  | setSegMarker => exact inv_setSegmentMarker h ..
  | removeSegMarker => exact inv_removeSegmentMarker h ..
  | setMarker1 => exact h
  | setMarker2 => exact h
  | setSR => exact h

/-- every way of obtaining a blueprint through the public API, from the empty one -/
inductive Hist where
  | empty
  | op (h : Hist) (o : Op)      -- a mutator (whether it is accepted or raises)
  | copy (h : Hist)
  | add (h₁ h₂ : Hist)

def Hist.eval : Hist → BP
  | .empty => {}
  | .op h o => (h.eval.step o).st
  | .copy h => h.eval.copy
  | .add h₁ h₂ => h₁.eval.add h₂.eval

theorem inv_reachable (h : Hist) : Inv h.eval := by
  induction h with
  | empty => exact inv_empty
  | op h o ih => exact inv_step ih o
  | copy h _ => exact inv_copy _
  | add h₁ h₂ _ _ => exact inv_add _ _

/-! ### copy is the identity on reachable blueprints (as far as `==`, description and forging see) -/

theorem names_getElem (b : BP) (i : Nat) (h : i < b.segs.length) :
    b.names[i]'(by simpa [names] using h) = (b.segs[i]).name := by
  simp [names]

end BP
end BB
