/-
  BB.Proofs.G10ReadBack — whatever `Sequence.sequence_from_description` (`Sequence.ofDesc`) returns
  keeps its sequencing entries under the keys of its entries and stores no AWG setting twice: the
  invariant (`C16.SeqInv`) the theorems about `+` need.  Holds for every description the reader
  accepts, not only for descriptions written by `Sequence.description`.
-/
import BB.Model.Describe
import BB.Proofs.DictEq
import BB.Proofs.G5Add

namespace BB.G10
open BB BB.Sequence

/-- an invariant of every step is an invariant of the loop -/
theorem foldlM_inv {σ α : Type} (P : σ → Prop) (F : σ → α → Except Err σ)
    (hF : ∀ s x s', P s → F s x = .ok s' → P s') :
    ∀ (l : List α) (s sf : σ), P s → l.foldlM F s = .ok sf → P sf := by
  intro l
  induction l with
  | nil =>
    intro s sf hs h
    simp only [List.foldlM_nil, pure, Except.pure, Except.ok.injEq] at h
    subst h
    exact hs
  | cons x xs ih =>
    intro s sf hs h
    simp only [List.foldlM_cons, bind, Except.bind] at h
    cases hx : F s x with
    | error e => rw [hx] at h; cases h
    | ok s1 =>
      rw [hx] at h
      exact ih s1 sf (hF s x s1 hs hx) h

/-- sequencing entries under the keys of the entries, no AWG setting stored twice -/
def RBInv (s : Sequence) : Prop := Dict.keys s.sequencing = Dict.keys s.data ∧ Dict.WF s.awgspecs

/-- reading back one channel touches only the AWG settings of the sequence under construction -/
theorem chanStep_inv (specs : List (String × J)) (sr : Val) (es es' : Element × Sequence) (kd : String × J)
    (h : RBInv es.2) (hs : chanStep specs sr es kd = .ok es') : RBInv es'.2 := by
  unfold chanStep at hs
  split at hs
  · cases hs
  · split at hs
    · cases hs
    · split at hs
      · cases hs
      · split at hs
        · cases hs
        · simp only [Except.ok.injEq] at hs
          subst hs
          exact ⟨h.1, Dict.wf_upsert (Dict.wf_upsert h.2 _ _) _ _⟩

/-- `addElement` keeps the invariant, whether it accepts the element or not -/
theorem addElement_inv (s : Sequence) (pos : Int) (e : Element) (h : RBInv s) : RBInv (s.addElement pos e).st := by
  unfold Sequence.addElement
  split
  · exact h
  · exact ⟨G5.keys_upsert_congr _ _ _ _ _ h.1, h.2⟩

/-- after an accepted `addElement(pos, ·)` the position has a sequencing entry -/
theorem addElement_has (s : Sequence) (pos : Int) (e : Element) (h : (s.addElement pos e).err = none) :
    pos ∈ Dict.keys (s.addElement pos e).st.sequencing := by
  unfold Sequence.addElement at h ⊢
  split
  · rename_i er hv
    rw [hv] at h
    cases h
  · exact (Dict.get?_isSome_iff _ _).mp (by rw [Dict.get?_upsert_self]; rfl)

/-- reading back one position keeps the invariant -/
theorem posStep_inv (specs : List (String × J)) (sr : Val) (s s' : Sequence) (kd : String × J)
    (h : RBInv s) (hs : posStep specs sr s kd = .ok s') : RBInv s' := by
  unfold posStep at hs
  split at hs
  · split at hs
    · cases hs
    · rename_i es hes
      have hinv : RBInv es.2 :=
        foldlM_inv (fun (es : Element × Sequence) => RBInv es.2) (chanStep specs sr)
          (fun a x b ha hab => chanStep_inv specs sr a b x ha hab) _ _ _ h hes
      split at hs
      · cases hs
      · rename_i pos _
        split at hs
        · cases hs
        · rename_i herr
          split at hs
          · split at hs
            · cases hs
            · simp only [Except.ok.injEq] at hs
              subst hs
              have h1 := addElement_inv es.2 pos es.1 hinv
              refine ⟨?_, h1.2⟩
              show Dict.keys (Dict.upsert _ pos _) = _
              rw [Dict.keys_upsert_of_mem _ _ _ (addElement_has es.2 pos es.1 herr)]
              exact h1.1
          · cases hs
  · cases hs

/-- `setdefault` of the remaining settings keeps the invariant -/
theorem restSpecs_inv (specs : List (String × J)) : ∀ (s : Sequence), RBInv s → RBInv (restSpecs s specs) := by
  induction specs with
  | nil => intro s h; exact h
  | cons kv rest ih =>
    intro s h
    simp only [restSpecs, List.foldl_cons]
    split
    · exact ih s h
    · exact ih _ ⟨h.1, Dict.wf_upsert h.2 _ _⟩

/-- **every sequence `sequence_from_description` returns** keeps its sequencing entries under the
    keys of its entries and stores every AWG setting once -/
theorem ofDesc_inv (d : J) (s : Sequence) (h : Sequence.ofDesc d = .ok s) : RBInv s := by
  unfold Sequence.ofDesc at h
  split at h
  · split at h
    · split at h
      · cases h
      · split at h
        · cases h
        · rename_i s0 hs0
          simp only [Except.ok.injEq] at h
          subst h
          have h0 : RBInv s0 :=
            foldlM_inv RBInv _ (fun a x b ha hab => posStep_inv _ _ a b x ha hab) _ _ _ ⟨rfl, Dict.wf_nil⟩ hs0
          rename_i specs _ _ _ _ _
          have h1 := restSpecs_inv specs s0 h0
          exact ⟨h1.1, Dict.wf_upsert h1.2 _ _⟩
    · cases h
  · cases h

end BB.G10
