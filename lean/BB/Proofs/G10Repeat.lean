/-
  BB.Proofs.G10Repeat — helper lemmas for property C17 (forged output and consistency of the
  sequence `repeatAndVarySequence` returns): a sweep step changes neither the channel list nor the
  sample rates of an element; all varied copies of a sequence have one "shape" (sample rate and
  sorted channel list of their entries); a left fold of `+` over such copies forges to the
  concatenation of the forged copies, re-keyed and retargeted, and is consistent.
-/
import BB.Properties.C16
import BB.Proofs.G5Sweep
import BB.Proofs.G5Repeat

namespace BB.G10
open BB BB.Sequence BB.C16 BB.G5 BB.Tools

/-! ### a sweep step keeps channel list and sample rates -/

/-- the list of per-channel sample rates `validateDurations` starts from -/
def srList (e : Element) : Except Err (List Val) := (Dict.vals e.chans).mapM Element.chanSR

/-- the sample rate a validated element reports: the first channel's -/
def srHead (e : Element) : Val :=
  match srList e with
  | .ok srs => srs.headD .none
  | .error _ => .none

theorem validate_sr (e : Element) (m : Val × ℚ) (h : e.validate = .ok m) : m.1 = srHead e := by
  unfold Element.validate at h
  unfold srHead srList
  split at h
  · cases h
  · split at h
    · cases h
    · rename_i srs hsrs
      rw [hsrs]
      split at h
      · cases h
      · split at h
        · cases h
        · split at h
          · cases h
          · split at h
            · cases h
            · split at h
              · cases h
              · split at h
                · cases h
                · cases h; rfl

theorem changeArgOne_SR (b : BP) (nm : String) (arg value : Val) : (b.changeArgOne nm arg value).st.SR = b.SR := by
  unfold BP.changeArgOne
  split
  · rfl
  · split
    · rfl
    · split
      · rfl
      · split
        · rfl
        · split <;> rfl

theorem changeArgLoop_SR (b : BP) (l : List String) (arg value : Val) : (b.changeArgLoop l arg value).st.SR = b.SR := by
  induction l generalizing b with
  | nil => rfl
  | cons nm rest ih =>
    unfold BP.changeArgLoop
    have h1 := changeArgOne_SR b nm arg value
    split
    · rename_i b' heq
      rw [ih b']
      rw [heq] at h1
      exact h1
    · exact h1

theorem bp_changeArg_SR (b : BP) (name : String) (arg value : Val) (all : Bool) :
    (b.changeArg name arg value all).st.SR = b.SR := by
  unfold BP.changeArg
  split
  · rfl
  · exact changeArgLoop_SR b _ arg value

theorem bp_changeDuration_SR (b : BP) (name : String) (dur : Val) (all : Bool) :
    (b.changeDuration name dur all).st.SR = b.SR := by
  unfold BP.changeDuration
  split
  · split
    · rfl
    · split
      · rfl
      · split <;> rfl
  · rfl

/-- storing, under an existing key, a value that `g` cannot tell from the old one -/
theorem upsert_map_inv {κ α β : Type} [DecidableEq κ] (d : Dict κ α) (g : α → β) (k : κ) (v w : α)
    (h : Dict.get? d k = some v) (hg : g w = g v) :
    (Dict.upsert d k w).map (fun p => g p.2) = d.map (fun p => g p.2) := by
  induction d with
  | nil => simp [Dict.get?] at h
  | cons x xs ih =>
    obtain ⟨k', v'⟩ := x
    unfold Dict.upsert
    by_cases hk : k' = k
    · subst hk
      simp only [Dict.get?, List.find?_cons, decide_true, Option.map_some, Option.some.injEq] at h
      subst h
      simp [hg]
    · simp only [hk, if_false, List.map_cons, List.cons.injEq, true_and]
      apply ih
      simpa [Dict.get?, List.find?_cons, hk] using h

theorem srList_eq_map (e : Element) : srList e = (e.chans.map (fun p => Element.chanSR p.2)).mapM id := by
  unfold srList Dict.vals
  rw [mapM_map_ok, mapM_map_ok]
  rfl

/-- a blueprint edit that keeps the blueprint's sample rate keeps channel list and sample rates of the element -/
theorem withBP_keeps (e : Element) (ch : Chan) (f : BP → Res BP) (hf : ∀ b, (f b).st.SR = b.SR) :
    Dict.keys (e.withBP ch f).st.chans = Dict.keys e.chans ∧ srList (e.withBP ch f).st = srList e := by
  unfold Element.withBP
  split
  · exact ⟨rfl, rfl⟩
  · rename_i ent hent
    split
    · rename_i b hb
      simp only
      refine ⟨Dict.keys_upsert_of_mem _ _ _ ((Dict.get?_isSome_iff e.chans ch).mp (by simp [hent])), ?_⟩
      rw [srList_eq_map, srList_eq_map]
      simp only
      rw [upsert_map_inv e.chans (fun x => Element.chanSR x) ch ent _ hent]
      obtain ⟨dat, fl⟩ := ent
      simp only at hb
      subst hb
      simp only [Element.chanSR, hf]
    · exact ⟨rfl, rfl⟩

theorem applyChange_keeps (e : Element) (ch : Chan) (name : String) (arg val : Val) :
    Dict.keys (applyChange e ch name arg val).st.chans = Dict.keys e.chans ∧
    srList (applyChange e ch name arg val).st = srList e := by
  unfold applyChange
  split
  · exact withBP_keeps e ch _ (fun b => bp_changeDuration_SR b name val false)
  · exact withBP_keeps e ch _ (fun b => bp_changeArg_SR b name arg val false)

theorem stepVaried_keeps (step : ℕ) (pv : List (ℤ × Variation)) (p : ℤ) (e : Element) :
    Dict.keys (stepVaried step pv p e).chans = Dict.keys e.chans ∧ srList (stepVaried step pv p e) = srList e := by
  induction pv generalizing e with
  | nil => exact ⟨rfl, rfl⟩
  | cons x rest ih =>
    unfold stepVaried at ih ⊢
    simp only [List.foldl_cons]
    split
    · have h1 := applyChange_keeps e x.2.chan x.2.name x.2.arg (x.2.vals.getD step .none)
      have h2 := ih (changed e x.2 (x.2.vals.getD step .none))
      exact ⟨h2.1.trans h1.1, h2.2.trans h1.2⟩
    · exact ih e

/-! ### the shape of a sequence -/

/-- the sample rate an entry reports when it reports one -/
def srOf : Entry → Val
  | .el e => srHead e
  | .sub s => s.getSR

theorem getSR_srOf (x : Entry) (v : Val) (h : x.getSR = .ok v) : v = srOf x := by
  cases x with
  | el e =>
    simp only [Entry.getSR, Element.getSR] at h
    cases hv : e.validate with
    | error er => rw [hv] at h; cases h
    | ok m =>
      rw [hv] at h
      simp only [Except.map, Except.ok.injEq] at h
      rw [← h]
      exact validate_sr e m hv
  | sub s =>
    simp only [Entry.getSR, Except.ok.injEq] at h
    exact h.symm

theorem stepEntry_keeps (step : ℕ) (pv : List (ℤ × Variation)) (p : ℤ) (en : Entry) :
    (stepEntry step pv p en).channels = en.channels ∧ srOf (stepEntry step pv p en) = srOf en := by
  cases en with
  | el e =>
    obtain ⟨h1, h2⟩ := stepVaried_keeps step pv p e
    refine ⟨?_, ?_⟩
    · simp only [stepEntry, Entry.channels, Element.channels, h1]
    · simp only [stepEntry, srOf, srHead, h2]
  | sub s => exact ⟨rfl, rfl⟩

/-- every entry reports sample rate `σ.1` and sorted channel list `σ.2` -/
def Sig (s : Sequence) (σ : Except Err Val × Except Err (List Chan)) : Prop :=
  ∀ x ∈ Dict.vals s.data, x.getSR = σ.1 ∧ x.channels.map channelListSorter = σ.2

theorem sameShape_of_sig {a b : Sequence} {σ : Except Err Val × Except Err (List Chan)} (ha : Sig a σ) (hb : Sig b σ) :
    SameShape a b := by
  intro x hx y hy
  exact ⟨(ha x hx).1.trans (hb y hy).1.symm, (ha x hx).2.trans (hb y hy).2.symm⟩

theorem sig_addCore (a b : Sequence) (σ : Except Err Val × Except Err (List Chan)) (hpa : Positions a.data)
    (hpb : Positions b.data) (ha : Sig a σ) (hb : Sig b σ) : Sig (addCore a b) σ := by
  intro x hx
  rw [addCore_vals a b hpa hpb] at hx
  rcases List.mem_append.mp hx with hx | hx
  · obtain ⟨y, hy, rfl⟩ := List.mem_map.mp hx
    rw [getSR_copyEntry, channels_copyEntry]; exact ha y hy
  · obtain ⟨y, hy, rfl⟩ := List.mem_map.mp hx
    rw [getSR_copyEntry, channels_copyEntry]; exact hb y hy

theorem sig_of_empty (s : Sequence) (σ : Except Err Val × Except Err (List Chan)) (h : s.data = []) : Sig s σ := by
  intro x hx; rw [h] at hx; simp [Dict.vals] at hx

/-- in a consistent sequence every entry reports a sample rate and a channel list, and any two
    entries report the same sample rate and the same sorted channel list -/
theorem consistent_uniform (s : Sequence) (h : s.checkConsistency = .ok true) :
    ∀ x ∈ Dict.vals s.data, (∃ v, x.getSR = .ok v) ∧ (∃ c, x.channels = .ok c) ∧
      ∀ y ∈ Dict.vals s.data, x.getSR = y.getSR ∧ x.channels.map channelListSorter = y.channels.map channelListSorter := by
  obtain ⟨_, srs, chans, h1, h2, h3, h4, _⟩ := (consistent_iff s).mp h
  rw [G5.allSame_iff_forall] at h2
  rw [G5.allEqLast_iff] at h4
  intro x hx
  obtain ⟨v, hv, hxv⟩ := mapM_mem _ _ _ h1 x hx
  obtain ⟨c, hc, hxc⟩ := mapM_mem _ _ _ h3 x hx
  refine ⟨⟨v, hxv⟩, ⟨c, hxc⟩, fun y hy => ?_⟩
  obtain ⟨w, hw, hyw⟩ := mapM_mem _ _ _ h1 y hy
  obtain ⟨c2, hc2, hyc⟩ := mapM_mem _ _ _ h3 y hy
  rw [hxv, hyw, hxc, hyc, h2 v hv w hw]
  refine ⟨rfl, ?_⟩
  simp only [Except.map]
  rw [h4 _ (List.mem_map.mpr ⟨c, hc, rfl⟩) _ (List.mem_map.mpr ⟨c2, hc2, rfl⟩)]

/-- a consistent sequence that holds, at some position, the varied form of `en` has the shape of `en` -/
theorem sig_of_consistent (t : Sequence) (h : t.checkConsistency = .ok true) (p : ℤ) (y en : Entry)
    (hy : Dict.get? t.data p = some y) (h1 : y.channels = en.channels) (h2 : srOf y = srOf en) :
    Sig t (.ok (srOf en), en.channels.map channelListSorter) := by
  have hmem : y ∈ Dict.vals t.data := List.mem_map.mpr ⟨(p, y), Dict.mem_of_get?_eq_some p y hy, rfl⟩
  intro x hx
  obtain ⟨_, _, hall⟩ := consistent_uniform t h x hx
  obtain ⟨⟨v, hv⟩, _, _⟩ := consistent_uniform t h y hmem
  obtain ⟨e1, e2⟩ := hall y hmem
  refine ⟨?_, ?_⟩
  · rw [e1, hv, getSR_srOf y v hv, h2]
  · rw [e2, h1]

/-! ### folds of `+` -/

/-- every sequence a successful fold of `+` appended was consistent -/
theorem foldAdd_consistent_operands (temps : List Sequence) (acc r : Sequence)
    (h : temps.foldlM Sequence.add acc = .ok r) : ∀ t ∈ temps, t.checkConsistency = .ok true := by
  induction temps generalizing acc with
  | nil => intro t ht; simp at ht
  | cons t ts ih =>
    simp only [List.foldlM_cons, bind, Except.bind] at h
    cases ha : acc.add t with
    | error er => rw [ha] at h; cases h
    | ok acc1 =>
      rw [ha] at h
      simp only at h
      obtain ⟨_, hb, _, _⟩ := (add_ok_iff acc t acc1).mp ha
      intro t' ht'
      rcases List.mem_cons.mp ht' with rfl | ht'
      · exact hb
      · exact ih acc1 h t' ht'

/-- **a fold of `+` over sequences of one shape is consistent** (and has that shape) -/
theorem foldAdd_consistent (temps : List Sequence) (acc r : Sequence) (σ : Except Err Val × Except Err (List Chan))
    (h : temps.foldlM Sequence.add acc = .ok r) (hc : acc.checkConsistency = .ok true)
    (hσa : Sig acc σ) (hσ : ∀ t ∈ temps, Sig t σ) : r.checkConsistency = .ok true ∧ Sig r σ := by
  induction temps generalizing acc with
  | nil =>
    simp only [List.foldlM_nil, pure, Except.pure, Except.ok.injEq] at h
    subst h; exact ⟨hc, hσa⟩
  | cons t ts ih =>
    simp only [List.foldlM_cons, bind, Except.bind] at h
    cases ha : acc.add t with
    | error er => rw [ha] at h; cases h
    | ok acc1 =>
      rw [ha] at h
      simp only at h
      obtain ⟨hca, hcb, _, rfl⟩ := (add_ok_iff acc t acc1).mp ha
      have hσt := hσ t (by simp)
      exact ih _ h (add_consistent acc t hca hcb (sameShape_of_sig hσa hσt))
        (sig_addCore acc t σ (positions_of_consistent acc hca) (positions_of_consistent t hcb) hσa hσt)
        (fun t' ht' => hσ t' (by simp [ht']))

/-- the forged copies, the `j`-th one moved behind `off + j·N` positions -/
def shiftedFrom (off N : ℕ) (fts : List (List (ℕ × ForgedPos))) : List (ℕ × ForgedPos) :=
  (fts.mapIdx (fun j ft => ft.map (shiftPos (off + j * N)))).flatten

theorem shiftedFrom_cons (off N : ℕ) (ft : List (ℕ × ForgedPos)) (fts : List (List (ℕ × ForgedPos))) :
    shiftedFrom off N (ft :: fts) = ft.map (shiftPos off) ++ shiftedFrom (off + N) N fts := by
  unfold shiftedFrom
  rw [List.mapIdx_cons, List.flatten_cons]
  simp only [Nat.zero_mul, Nat.add_zero]
  have : (fun (i : ℕ) (ft : List (ℕ × ForgedPos)) => ft.map (shiftPos (off + (i + 1) * N))) =
      (fun (j : ℕ) (ft : List (ℕ × ForgedPos)) => ft.map (shiftPos (off + N + j * N))) := by
    funext i ft
    have : off + (i + 1) * N = off + N + i * N := by rw [Nat.add_mul, Nat.one_mul]; omega
    rw [this]
  rw [this]

/-- `+` keeps the invariant of the public interface -/
theorem seqInv_add (a b s : Sequence) (h : a.add b = .ok s) (ia : SeqInv a) (ib : SeqInv b) : SeqInv s := by
  obtain ⟨ha, hb, _, rfl⟩ := (add_ok_iff a b s).mp h
  exact ⟨addCore_aligned a b (positions_of_consistent a ha) (positions_of_consistent b hb) ia.1 ib.1, ib.2⟩

/-- **a fold of `+` forges to the concatenation**: starting from an accumulator that forges to
    `facc`, appending sequences of `N` positions each (all of one shape, all satisfying the interface
    invariant) that forge to `fts`, the result forges to `facc` followed by the forged copies, the
    `j`-th one re-keyed by `len(acc) + j·N` with goto / jump target retargeted -/
theorem foldAdd_forge (temps : List Sequence) (acc r : Sequence) (N : ℕ) (σ : Except Err Val × Except Err (List Chan))
    (h : temps.foldlM Sequence.add acc = .ok r) (hN : ∀ tm ∈ temps, tm.data.length = N)
    (hσa : Sig acc σ) (hσ : ∀ tm ∈ temps, Sig tm σ) (ia : SeqInv acc) (it : ∀ tm ∈ temps, SeqInv tm)
    (d f t : Bool) (facc : List (ℕ × ForgedPos)) (hfa : acc.forge d f t = .ok facc)
    (fts : List (List (ℕ × ForgedPos))) (hf : List.Forall₂ (fun tm ft => tm.forge d f t = .ok ft) temps fts) :
    r.forge d f t = .ok (facc ++ shiftedFrom acc.data.length N fts) := by
  induction temps generalizing acc facc fts with
  | nil =>
    cases hf
    simp only [List.foldlM_nil, pure, Except.pure, Except.ok.injEq] at h
    subst h
    simp [shiftedFrom, hfa]
  | cons tm ts ih =>
    cases hf with
    | @cons _ ft _ fts' hft hfts =>
      simp only [List.foldlM_cons, bind, Except.bind] at h
      cases ha : acc.add tm with
      | error er => rw [ha] at h; cases h
      | ok acc1 =>
        rw [ha] at h
        simp only at h
        have hσt := hσ tm (by simp)
        have hf1 := forge_add acc tm acc1 ha (sameShape_of_sig hσa hσt) ia (it tm (by simp)) d f t facc ft hfa hft
        obtain ⟨hca, hcb, _, hacc1⟩ := (add_ok_iff acc tm acc1).mp ha
        have hlen := (add_positions acc tm acc1 ha).1
        have hσ1 : Sig acc1 σ := by
          rw [hacc1]
          exact sig_addCore acc tm σ (positions_of_consistent acc hca) (positions_of_consistent tm hcb) hσa hσt
        have := ih acc1 h (fun t' ht' => hN t' (by simp [ht'])) hσ1 (fun t' ht' => hσ t' (by simp [ht']))
          (seqInv_add acc tm acc1 ha ia (it tm (by simp))) (fun t' ht' => it t' (by simp [ht'])) _ hf1 fts' hfts
        rw [this, shiftedFrom_cons, hlen, hN tm (by simp), List.append_assoc]

/-- the same from an empty accumulator that only carries the AWG settings (it does not forge itself) -/
theorem foldAdd_forge_empty (temps : List Sequence) (acc r : Sequence) (N : ℕ) (σ : Except Err Val × Except Err (List Chan))
    (h : temps.foldlM Sequence.add acc = .ok r) (hempty : acc.data = []) (hN : ∀ tm ∈ temps, tm.data.length = N)
    (hσ : ∀ tm ∈ temps, Sig tm σ) (ia : SeqInv acc) (it : ∀ tm ∈ temps, SeqInv tm)
    (d f t : Bool) (fts : List (List (ℕ × ForgedPos))) (hf : List.Forall₂ (fun tm ft => tm.forge d f t = .ok ft) temps fts)
    (hne : temps ≠ []) : r.forge d f t = .ok (shiftedFrom 0 N fts) := by
  cases temps with
  | nil => exact absurd rfl hne
  | cons tm ts =>
    cases hf with
    | @cons _ ft _ fts' hft hfts =>
      simp only [List.foldlM_cons, bind, Except.bind] at h
      cases ha : acc.add tm with
      | error er => rw [ha] at h; cases h
      | ok acc1 =>
        rw [ha] at h
        simp only at h
        have hσt := hσ tm (by simp)
        have hf1 := forge_add_empty_left acc tm acc1 ha hempty ia (it tm (by simp)) d f t ft hft
        obtain ⟨hca, hcb, _, hacc1⟩ := (add_ok_iff acc tm acc1).mp ha
        have hlen := (add_positions acc tm acc1 ha).1
        have hσ1 : Sig acc1 σ := by
          rw [hacc1]
          exact sig_addCore acc tm σ (positions_of_consistent acc hca) (positions_of_consistent tm hcb)
            (sig_of_empty acc σ hempty) hσt
        have := foldAdd_forge ts acc1 r N σ h (fun t' ht' => hN t' (by simp [ht'])) hσ1 (fun t' ht' => hσ t' (by simp [ht']))
          (seqInv_add acc tm acc1 ha ia (it tm (by simp))) (fun t' ht' => it t' (by simp [ht'])) d f t ft hf1 fts' hfts
        rw [this, shiftedFrom_cons, hlen, hempty, hN tm (by simp)]
        simp only [List.length_nil, Nat.zero_add]
        rw [List.map_congr_left (fun r _ => shiftPos_zero r), List.map_id']

/-! ### the varied copies of `repeatAndVarySequence` -/

/-- what every varied copy inherits from the sequence: number of positions, interface invariant -/
theorem applyStep_inv (step : ℕ) (pv : List (ℤ × Variation)) (seq tm : Sequence) (h : applyStep step pv seq.copy = .ok tm)
    (hinv : SeqInv seq) : tm.data.length = seq.data.length ∧ SeqInv tm := by
  obtain ⟨k1, k2, k3, _⟩ := applyStep_spec step pv _ _ h
  refine ⟨?_, ?_, ?_⟩
  · have := congrArg List.length k1
    simpa [Dict.keys, Sequence.copy] using this
  · show Dict.keys tm.sequencing = Dict.keys tm.data
    rw [k1, k2]
    exact hinv.1
  · rw [k3]; exact hinv.2

/-- all varied copies (each of them consistent) have one shape -/
theorem temps_sig (seq : Sequence) (pv : List (ℤ × Variation)) (temps : List Sequence)
    (hstep : ∀ i (hi : i < temps.length), applyStep i pv seq.copy = .ok temps[i])
    (hcons : ∀ tm ∈ temps, tm.checkConsistency = .ok true) :
    ∃ σ : Except Err Val × Except Err (List Chan), ∀ tm ∈ temps, Sig tm σ := by
  cases hd : seq.data with
  | nil =>
    refine ⟨(.error .key, .error .key), fun tm htm => ?_⟩
    obtain ⟨i, hi, rfl⟩ := List.getElem_of_mem htm
    obtain ⟨k1, _⟩ := applyStep_spec i pv _ _ (hstep i hi)
    apply sig_of_empty
    have : Dict.keys temps[i].data = [] := by rw [k1]; simp [Sequence.copy, hd, Dict.keys]
    simpa [Dict.keys] using this
  | cons x rest =>
    obtain ⟨p0, en0⟩ := x
    refine ⟨(.ok (srOf en0), en0.channels.map channelListSorter), fun tm htm => ?_⟩
    obtain ⟨i, hi, rfl⟩ := List.getElem_of_mem htm
    obtain ⟨_, _, _, k4⟩ := applyStep_spec i pv _ _ (hstep i hi)
    have hget : Dict.get? seq.copy.data p0 = some en0 := by
      show Dict.get? seq.data p0 = some en0
      rw [hd]; simp [Dict.get?]
    obtain ⟨e1, e2⟩ := stepEntry_keeps i pv p0 en0
    exact sig_of_consistent temps[i] (hcons _ htm) p0 _ en0 (k4 p0 en0 hget) e1 e2

/-- a look-up in a dictionary that gives every listed key the same value -/
theorem get_const_map {κ α : Type} [DecidableEq κ] (l : List κ) (v : α) (k : κ) (h : k ∈ l) :
    Dict.get? (l.map (fun p => (p, v))) k = some v := by
  induction l with
  | nil => simp at h
  | cons a t ih =>
    by_cases ha : a = k
    · simp [Dict.get?, ha]
    · have : k ∈ t := by
        rcases List.mem_cons.mp h with h | h
        · exact absurd h.symm ha
        · exact h
      simp only [Dict.get?, List.map_cons, List.find?_cons, ha, decide_false] at ih ⊢
      exact ih this

/-! ### indexing into a concatenation of equally long lists -/

theorem flatten_getElem_uniform {α : Type} (L : List (List α)) (N : ℕ) (h : ∀ l ∈ L, l.length = N) (m k : ℕ) (hk : k < N) :
    L.flatten[m * N + k]? = (L[m]?).bind (fun l => l[k]?) := by
  induction L generalizing m with
  | nil => simp
  | cons l ls ih =>
    have hl : l.length = N := h l (by simp)
    rw [List.flatten_cons]
    cases m with
    | zero =>
      simp only [Nat.zero_mul, Nat.zero_add, List.getElem?_cons_zero, Option.bind_some]
      exact List.getElem?_append_left (by omega)
    | succ m =>
      have hge : l.length ≤ (m + 1) * N + k := by rw [hl, Nat.add_mul, Nat.one_mul]; omega
      rw [List.getElem?_append_right hge, List.getElem?_cons_succ]
      have : (m + 1) * N + k - l.length = m * N + k := by rw [hl, Nat.add_mul, Nat.one_mul]; omega
      rw [this]
      exact ih (fun l' hl' => h l' (by simp [hl'])) m

theorem forall2_getElem {α β : Type} {R : α → β → Prop} {l : List α} {l' : List β} (h : List.Forall₂ R l l')
    (i : ℕ) (hi : i < l.length) (hi' : i < l'.length) : R l[i] l'[i] := by
  induction h generalizing i with
  | nil => simp at hi
  | cons hxy _ ih =>
    cases i with
    | zero => exact hxy
    | succ i => exact ih i (by simpa using hi) (by simpa using hi')

theorem forall2_length_eq {α β : Type} {R : α → β → Prop} {l : List α} {l' : List β} (h : List.Forall₂ R l l') :
    l.length = l'.length := by
  induction h with
  | nil => rfl
  | cons _ _ ih => simp [ih]

end BB.G10
