/-
  BB.Proofs.G8Sq4 — `a + b` on sequences never faults on well-formed heaps.
-/
import BB.Proofs.G8Sq3

namespace BB.Heap

/-! ### stored entries -/

/-- a stored entry of owner `r`: an element, or a flat subsequence -/
def EntryOk (r : Owner) (h : Heap) (x : Addr) : Prop :=
  Is h x .elObj r ∨ (Is h x .sqObj r ∧ FlatSeq h x)

theorem FlatSeq.sub {h h' : Heap} (hg : Good h) (s : Sub h h') {b : Addr} {cb : Cell} (hcb : h[b]? = some cb)
    (hf : FlatSeq h b) : FlatSeq h' b :=
  hf.keep s.keeps hg hcb (s b cb hcb) (fun db cdb _ hcdb => s db cdb hcdb)

theorem EntryOk.sub {r : Owner} {h h' : Heap} (hg : Good h) (s : Sub h h') {x : Addr} (he : EntryOk r h x) :
    EntryOk r h' x := by
  rcases he with he | ⟨he, hf⟩
  · exact Or.inl (he.sub s)
  · obtain ⟨c, hc, _, _⟩ := he
    exact Or.inr ⟨Is.sub s ⟨c, hc, ‹_›, ‹_›⟩, hf.sub hg s hc⟩

/-- **the copy `__add__` makes of a stored entry never faults** -/
theorem entryCopy_spec {base : Nat} {r : Owner} {h : Heap} {x : Addr} (hg : Good h)
    (hx : IsK h x .elObj ∨ (IsK h x .sqObj ∧ FlatSeq h x)) :
    Runs base r (entryCopy x) h (fun x' h' => h.length ≤ x' ∧ Evo r pNone h h' ∧ EntryOk r h' x') := by
  unfold entryCopy
  rcases hx with ⟨c, hc, hk⟩ | ⟨⟨c, hc, hk⟩, hf⟩
  · apply runs_bind
    apply runs_cellAt hc
    simp only [hk, reduceCtorEq, if_false]
    apply runs_mono (elCopy_spec hg ⟨c, hc, hk⟩)
    intro x' h' ⟨h1, h2, h3, _⟩
    exact ⟨h1, h2, Or.inl h3⟩
  · apply runs_bind
    apply runs_cellAt hc
    simp only [hk, if_true]
    apply runs_mono (sqCopy_spec hg ⟨c, hc, hk⟩ hf.subsFlat)
    intro x' h' ⟨h1, h2, d, d', _, hcop⟩
    exact ⟨h1, h2, Or.inr ⟨hcop.isNew, (sqCopied_flat h2 hg ⟨c, hc, hk⟩ hcop).2 hf⟩⟩

/-! ### the four loops of `__add__` -/

/-- a loop that appends, for every referencing slot of `src`, a reference to a fresh cell
    satisfying `J` under the re-keyed key -/
theorem runs_copyFold {base : Nat} {r : Owner} (f : List (String × Slot) → String × Slot → Prog (List (String × Slot)))
    (rekey : String → String) (J : Addr → Heap → Prop) (src : List (String × Slot)) (h : Heap) (hg : Good h)
    (hstep : ∀ acc key x h1, (key, Slot.ref x) ∈ src → Evo r pNone h h1 →
      Runs base r (f acc (key, .ref x)) h1 (fun acc' h2 => ∃ x', acc' = acc ++ [(rekey key, Slot.ref x')] ∧
        Evo r pNone h1 h2 ∧ J x' h2))
    (hJ : ∀ x' h1 h2, Good h1 → Evo r pNone h1 h2 → J x' h1 → J x' h2)
    (hnoimm : ∀ ks ∈ src, ∃ x, ks.2 = Slot.ref x) :
    Runs base r (src.foldlM f []) h (fun acc h' => Evo r pNone h h' ∧
      ∀ ks' ∈ acc, ∃ x', ks'.2 = Slot.ref x' ∧ J x' h') := by
  refine runs_mono (runs_foldlM f (fun _ acc h1 => Evo r pNone h h1 ∧
      ∀ ks' ∈ acc, ∃ x', ks'.2 = Slot.ref x' ∧ J x' h1) src [] [] h ⟨Evo.refl hg, by simp⟩ ?_) ?_
  · intro d x rest acc h1 heq ⟨hevo, hacc⟩
    have hx : x ∈ src := by
      have : x ∈ d ++ x :: rest := by simp
      rw [← heq] at this; simpa using this
    obtain ⟨y, hy⟩ := hnoimm x hx
    obtain ⟨key, s⟩ := x
    simp only at hy
    subst hy
    apply runs_mono (hstep acc key y h1 hx hevo)
    intro acc' h2 ⟨x', hacc', e2, hj⟩
    subst hacc'
    refine ⟨hevo.trans e2, ?_⟩
    intro ks' hks'
    simp only [List.mem_append, List.mem_singleton] at hks'
    rcases hks' with hks' | hks'
    · obtain ⟨x'', h1', h2'⟩ := hacc ks' hks'
      exact ⟨x'', h1', hJ x'' h1 h2 hevo.good e2 h2'⟩
    · subst hks'; exact ⟨x', rfl, hj⟩
  · intro acc h' hI; exact hI

/-- no immediate values in an element store or a sequencing dict -/
theorem refs_only {h : Heap} (hg : Good h) {a : Addr} {c : Cell} (hc : h[a]? = some c)
    (hk : c.kind = .sqData ∨ c.kind = .sqSeqn) : ∀ ks ∈ c.slots, ∃ x, ks.2 = Slot.ref x := by
  intro ks hks
  cases hs : ks.2 with
  | ref x => exact ⟨x, rfl⟩
  | imm t =>
    exfalso
    have hm : (ks.1, Slot.imm t) ∈ c.slots := by rw [← hs]; exact hks
    have := cellOk_imm (hg.typed a c hc) hm
    rcases hk with hk | hk <;> rw [hk] at this <;> simp [allowed] at this

/-- the entries of the store of a sequence with flat subsequences -/
theorem data_entry {h : Heap} (hg : Good h) {d : Addr} {cd : Cell} (hcd : h[d]? = some cd) (hkd : cd.kind = .sqData)
    (hf : DataFlat h d) {key : String} {x : Addr} (hm : (key, Slot.ref x) ∈ cd.slots) :
    IsK h x .elObj ∨ (IsK h x .sqObj ∧ FlatSeq h x) := by
  obtain ⟨cx, hcx, hal, _⟩ := good_ref hg hcd hm
  rw [hkd] at hal
  simp only [allowed, Bool.or_eq_true, beq_iff_eq] at hal
  rcases hal with hal | hal
  · exact Or.inl ⟨cx, hcx, hal⟩
  · exact Or.inr ⟨⟨cx, hcx, hal⟩, hf cd hcd (key, .ref x) hm x cx rfl hcx hal⟩

theorem seqn_entry {h : Heap} (hg : Good h) {q : Addr} {cq : Cell} (hcq : h[q]? = some cq) (hkq : cq.kind = .sqSeqn)
    {key : String} {x : Addr} (hm : (key, Slot.ref x) ∈ cq.slots) : IsK h x .seqSetting := by
  obtain ⟨cx, hcx, hal, _⟩ := good_ref hg hcq hm
  rw [hkq] at hal
  exact ⟨cx, hcx, by simpa [allowed] using hal⟩

theorem DataFlat.sub {h h' : Heap} (hg : Good h) (s : Sub h h') {d : Addr} {cd : Cell} (hcd : h[d]? = some cd)
    (hf : DataFlat h d) : DataFlat h' d := by
  intro cd2 hcd2 ks hks b cb' hb hcb' hkb'
  rw [s d cd hcd] at hcd2; cases hcd2
  have hm : (ks.1, Slot.ref b) ∈ cd.slots := by rw [← hb]; exact hks
  obtain ⟨cb, hcb, _, _⟩ := good_ref hg hcd hm
  rw [s b cb hcb] at hcb'; cases hcb'
  exact (hf cd hcd ks hks b cb' hb hcb hkb').sub hg s hcb

/-! ### `a + b` -/

/-- **`seq1 + seq2` never faults** on sequences whose stored subsequences are flat: copies of
    all entries, shallow copies of the sequencing dicts and of `b`'s settings, under a new object -/
theorem sqAdd_spec {base : Nat} {r : Owner} {h : Heap} {a b : Addr} (hg : Good h) (ha : IsK h a .sqObj)
    (hb : IsK h b .sqObj) (hfa : SubsFlat h a) (hfb : SubsFlat h b) :
    Runs base r (sqAdd a b) h (fun x h' => h.length ≤ x ∧ Evo r pNone h h' ∧ Is h' x .sqObj r ∧ SubsFlat h' x) := by
  unfold sqAdd
  obtain ⟨ca, hca, hka⟩ := ha
  obtain ⟨cb, hcb, hkb⟩ := hb
  obtain ⟨da, qa, wa, ma, pa⟩ := sq_parts hg (r := ca.owner) ⟨ca, hca, hka, rfl⟩
  obtain ⟨db, qb, wb, mb, pb⟩ := sq_parts hg (r := cb.owner) ⟨cb, hcb, hkb, rfl⟩
  obtain ⟨cda, hcda, hkda, _⟩ := pa.isData
  obtain ⟨cdb, hcdb, hkdb, _⟩ := pb.isData
  obtain ⟨cqa, hcqa, hkqa, _⟩ := pa.isSeqn
  obtain ⟨cqb, hcqb, hkqb, _⟩ := pb.isSeqn
  have hdfa := sq_data_flat pa hfa
  have hdfb := sq_data_flat pb hfb
  apply runs_bind; apply runs_follow pa.data
  apply runs_bind; apply runs_cellAt hcda
  apply runs_bind; apply runs_follow pb.data
  apply runs_bind; apply runs_cellAt hcdb
  apply runs_bind; apply runs_follow pa.seqn
  apply runs_bind; apply runs_cellAt hcqa
  apply runs_bind; apply runs_follow pb.seqn
  apply runs_bind; apply runs_cellAt hcqb
  dsimp only []
  -- the two loops over the stores
  have dataLoop : ∀ (rekey : String → String) (h0 : Heap) (d : Addr) (cd : Cell), Evo r pNone h h0 →
      h[d]? = some cd → cd.kind = .sqData → DataFlat h d →
      Runs base r (cd.slots.foldlM (fun (acc : List (String × Slot)) (ks : String × Slot) =>
        match ks.2 with
        | .ref x =>
          if false = true then do
            let x' ← shallowCopy x
            pure (acc ++ [(rekey ks.1, Slot.ref x')])
          else do
            let x' ← entryCopy x
            pure (acc ++ [(rekey ks.1, Slot.ref x')])
        | .imm t => (pure (acc ++ [(rekey ks.1, Slot.imm t)]) : Prog _)) []) h0
        (fun acc h' => Evo r pNone h0 h' ∧ ∀ ks' ∈ acc, ∃ x', ks'.2 = Slot.ref x' ∧ EntryOk r h' x') := by
    intro rekey h0 d cd e0 hcd hkd hdf
    apply runs_copyFold _ rekey (fun x' h' => EntryOk r h' x') cd.slots h0 e0.good
    · intro acc key x h1 hm e1
      simp only [Bool.false_eq_true, if_false]
      apply runs_bind
      have s01 : Sub h h1 := e0.sub.trans e1.sub
      have hx := data_entry hg hcd hkd hdf hm
      have hx1 : IsK h1 x .elObj ∨ (IsK h1 x .sqObj ∧ FlatSeq h1 x) := by
        rcases hx with hx | ⟨⟨cx, hcx, hkx⟩, hfx⟩
        · exact Or.inl (IsK.keeps s01.keeps hx)
        · exact Or.inr ⟨⟨cx, s01 x cx hcx, hkx⟩, hfx.sub hg s01 hcx⟩
      apply runs_mono (entryCopy_spec e1.good hx1)
      intro x' h2 ⟨_, e2, hok⟩
      exact runs_pure ⟨x', rfl, e2, hok⟩
    · intro x' h1 h2 hg1 e2 hj; exact hj.sub hg1 e2.sub
    · exact refs_only hg hcd (Or.inl hkd)
  have seqnLoop : ∀ (rekey : String → String) (h0 : Heap) (q : Addr) (cq : Cell), Evo r pNone h h0 →
      h[q]? = some cq → cq.kind = .sqSeqn →
      Runs base r (cq.slots.foldlM (fun (acc : List (String × Slot)) (ks : String × Slot) =>
        match ks.2 with
        | .ref x =>
          if true = true then do
            let x' ← shallowCopy x
            pure (acc ++ [(rekey ks.1, Slot.ref x')])
          else do
            let x' ← entryCopy x
            pure (acc ++ [(rekey ks.1, Slot.ref x')])
        | .imm t => (pure (acc ++ [(rekey ks.1, Slot.imm t)]) : Prog _)) []) h0
        (fun acc h' => Evo r pNone h0 h' ∧ ∀ ks' ∈ acc, ∃ x', ks'.2 = Slot.ref x' ∧ Is h' x' .seqSetting r) := by
    intro rekey h0 q cq e0 hcq hkq
    apply runs_copyFold _ rekey (fun x' h' => Is h' x' .seqSetting r) cq.slots h0 e0.good
    · intro acc key x h1 hm e1
      simp only [if_true]
      apply runs_bind
      have s01 : Sub h h1 := e0.sub.trans e1.sub
      obtain ⟨cx, hcx, hkx⟩ := seqn_entry hg hcq hkq hm
      apply shallowCopy_spec e1.good (s01 x cx hcx) (by rw [hkx]; rfl)
      intro e2
      refine runs_pure ⟨h1.length, rfl, e2, ⟨⟨cx.kind, r, cx.slots⟩, by simp, hkx, rfl⟩⟩
    · intro x' h1 h2 _ e2 hj; exact hj.sub e2.sub
    · exact refs_only hg hcq (Or.inr hkq)
  apply runs_bind
  apply runs_mono (dataLoop id h da cda (Evo.refl hg) hcda hkda hdfa)
  intro d1 h1 ⟨e1, hd1⟩
  apply runs_bind
  apply runs_mono (dataLoop (fun k => toString (k.toInt?.getD 0 + (cda.slots.length : Int))) h1 db cdb e1 hcdb hkdb hdfb)
  intro d2 h2 ⟨e2, hd2⟩
  apply runs_bind
  apply runs_mono (seqnLoop id h2 qa cqa (e1.trans e2) hcqa hkqa)
  intro q1 h3 ⟨e3, hq1⟩
  apply runs_bind
  apply runs_mono (seqnLoop (fun k => toString (k.toInt?.getD 0 + (cda.slots.length : Int))) h3 qb cqb ((e1.trans e2).trans e3) hcqb hkqb)
  intro q2 h4 ⟨e4, hq2⟩
  have e04 : Evo r pNone h h4 := ((e1.trans e2).trans e3).trans e4
  -- the entries, seen from the heap after the loops
  have hd12 : ∀ ks' ∈ d1 ++ d2, ∃ x', ks'.2 = Slot.ref x' ∧ EntryOk r h4 x' := by
    intro ks' hks'
    rw [List.mem_append] at hks'
    rcases hks' with hks' | hks'
    · obtain ⟨x', hx', hok⟩ := hd1 ks' hks'
      exact ⟨x', hx', hok.sub e1.good ((e2.sub.trans e3.sub).trans e4.sub)⟩
    · obtain ⟨x', hx', hok⟩ := hd2 ks' hks'
      exact ⟨x', hx', hok.sub e2.good (e3.sub.trans e4.sub)⟩
  have hq12 : ∀ ks' ∈ q1 ++ q2, ∃ x', ks'.2 = Slot.ref x' ∧ Is h4 x' .seqSetting r := by
    intro ks' hks'
    rw [List.mem_append] at hks'
    rcases hks' with hks' | hks'
    · obtain ⟨x', hx', hok⟩ := hq1 ks' hks'
      exact ⟨x', hx', hok.sub e4.sub⟩
    · exact hq2 ks' hks'
  -- the new store
  have hsoD : slotsOk h4 .sqData r (d1 ++ d2) = true := by
    apply slotsOk_intro rfl
    intro ks hks
    obtain ⟨x', hx', hok⟩ := hd12 ks hks
    rw [hx']
    rcases hok with ⟨c, hc, _, ho⟩ | ⟨⟨c, hc, _, ho⟩, _⟩ <;> exact refOk_own hc ho
  have hcoD : cellOk h4 .sqData (d1 ++ d2) = true := by
    apply cellOk_intro (by simp [keysOk, fixedKeys])
    intro ks hks
    obtain ⟨x', hx', hok⟩ := hd12 ks hks
    obtain ⟨key, s⟩ := ks
    simp only at hx'; subst hx'
    rcases hok with hi | ⟨hi, _⟩
    · exact slotOkT_is hi (by simp [allowed])
    · exact slotOkT_is hi (by simp [allowed])
  apply runs_bind
  apply runs_new e4.good hsoD hcoD
  intro h5 e5 hdnew
  -- the new sequencing dict
  have hsoQ : slotsOk h5 .sqSeqn r (q1 ++ q2) = true := by
    apply slotsOk_intro rfl
    intro ks hks
    obtain ⟨x', hx', ⟨c, hc, _, ho⟩⟩ := hq12 ks hks
    rw [hx']
    exact refOk_own (e5.sub x' c hc) ho
  have hcoQ : cellOk h5 .sqSeqn (q1 ++ q2) = true := by
    apply cellOk_intro (by simp [keysOk, fixedKeys])
    intro ks hks
    obtain ⟨x', hx', hi⟩ := hq12 ks hks
    obtain ⟨key, s⟩ := ks
    simp only at hx'; subst hx'
    exact slotOkT_is (hi.sub e5.sub) (by simp [allowed])
  apply runs_bind
  apply runs_new e5.good hsoQ hcoQ
  intro h6 e6 hqnew
  -- `b`'s settings, shallow
  have s06 : Sub h h6 := (e04.sub.trans e5.sub).trans e6.sub
  apply runs_bind
  apply runs_follow (follow_sub s06 pb.specs)
  obtain ⟨cwb, hcwb, hkwb, _⟩ := pb.isSpecs
  apply runs_bind
  apply shallowCopy_spec e6.good (s06 wb cwb hcwb) (by rw [hkwb]; rfl)
  intro e7
  generalize hh7 : h6 ++ [⟨cwb.kind, r, cwb.slots⟩] = h7 at e7 ⊢
  have hwnew : Is h7 h6.length .awgspecs r := ⟨⟨cwb.kind, r, cwb.slots⟩, by rw [← hh7]; simp, hkwb, rfl⟩
  apply runs_bind
  apply runs_new e7.good (slotsOk_nil _ _ _) (cellOk_nil _ _ rfl)
  intro h8 e8 hmnew
  have hd8 : Is h8 h4.length .sqData r := (((is_new hdnew).sub e6.sub).sub e7.sub).sub e8.sub
  have hq8 : Is h8 h5.length .sqSeqn r := ((is_new hqnew).sub e7.sub).sub e8.sub
  obtain ⟨hso, hco⟩ := sqObj_ok 0 hd8 hq8 (hwnew.sub e8.sub) (is_new hmnew)
  apply runs_new e8.good hso hco
  intro h9 e9 hsnew
  have e09 : Evo r pNone h h9 := ((((e04.trans e5).trans e6).trans e7).trans e8).trans e9
  refine ⟨?_, e09, is_new hsnew, ?_⟩
  · exact Nat.le_trans e04.len (Nat.le_trans e5.len (Nat.le_trans e6.len (Nat.le_trans e7.len e8.len)))
  · rw [subsFlat_iff]
    intro cs x hcs hm
    rw [hsnew] at hcs; cases hcs
    have hx : x = h4.length := by simpa using hm
    subst hx
    have s59 : Sub h5 h9 := ((e6.sub.trans e7.sub).trans e8.sub).trans e9.sub
    intro cd hcd ks hks y cy hy hcy hky
    rw [s59 _ _ hdnew] at hcd; cases hcd
    obtain ⟨x', hx', hok⟩ := hd12 ks hks
    rw [hy] at hx'; cases hx'
    have hok9 : EntryOk r h9 y := hok.sub e4.good (e5.sub.trans s59)
    rcases hok9 with ⟨c, hc, hk, _⟩ | ⟨_, hf⟩
    · rw [hcy] at hc; cases hc; rw [hk] at hky; cases hky
    · exact hf

end BB.Heap
