/-
  BB.Proofs.G1Markers — marker-related helper lemmas:
  the general argmin specification of `nearestIdx`, and congruence lemmas saying which parts of a
  forged channel depend on which fields of the blueprint (used for the frame theorems of C03).
-/
import BB.Proofs.Forge
import BB.Proofs.Body
import Mathlib.Tactic.Linarith

namespace BB

/-! ### `nearestIdx` is `argmin_k |x - k|` over `k < N` with ties to the first index -/

theorem abs_le_abs_of_signs (a b : ℚ) (h : (0 ≤ a ∧ (a ≤ b ∨ a ≤ -b)) ∨ (a ≤ 0 ∧ (-a ≤ b ∨ -a ≤ -b))) :
    |a| ≤ |b| := by
  rcases abs_cases a with ⟨h1, _⟩ | ⟨h1, _⟩ <;> rcases abs_cases b with ⟨h2, _⟩ | ⟨h2, _⟩ <;>
    rw [h1, h2] <;> rcases h with ⟨_, h | h⟩ | ⟨_, h | h⟩ <;> linarith

theorem abs_lt_abs_of_signs (a b : ℚ) (h : (0 ≤ a ∧ (a < b ∨ a < -b)) ∨ (a ≤ 0 ∧ (-a < b ∨ -a < -b))) :
    |a| < |b| := by
  rcases abs_cases a with ⟨h1, _⟩ | ⟨h1, _⟩ <;> rcases abs_cases b with ⟨h2, _⟩ | ⟨h2, _⟩ <;>
    rw [h1, h2] <;> rcases h with ⟨_, h | h⟩ | ⟨_, h | h⟩ <;> linarith

/-- **General specification of `nearestIdx`** (`numpy.abs(time - t).argmin()` with `x = t·SR`,
    `time[k] = k/SR`): on a non-empty axis the result is an index of the axis, no index of the axis
    is closer to `x`, and every earlier index is strictly farther - i.e. it is the *first* minimiser.
    Covers `x < 0` (index 0), `x` beyond the end (last index) and exact ties (lower index). -/
theorem nearestIdx_argmin (N : ℕ) (x : ℚ) (hN : 0 < N) :
    nearestIdx N x < N ∧
    (∀ k : ℕ, k < N → |x - (nearestIdx N x : ℚ)| ≤ |x - (k : ℚ)|) ∧
    (∀ k : ℕ, k < nearestIdx N x → |x - (nearestIdx N x : ℚ)| < |x - (k : ℚ)|) := by
  unfold nearestIdx
  by_cases hx : x ≤ 0
  · simp only [hx, if_true]
    refine ⟨hN, ?_, fun k hk => absurd hk (Nat.not_lt_zero _)⟩
    intro k _
    have hk0 : (0 : ℚ) ≤ k := Nat.cast_nonneg k
    apply abs_le_abs_of_signs
    right
    refine ⟨by push_cast; linarith, Or.inr ?_⟩
    push_cast; linarith
  · have hN0 : N ≠ 0 := by omega
    simp only [hx, if_false, hN0]
    have hx0 : 0 < x := not_le.mp hx
    have hfl : (x.floor : ℚ) ≤ x := Int.floor_le x
    have hfu : x < x.floor + 1 := Int.lt_floor_add_one x
    have hf0 : 0 ≤ x.floor := Int.floor_nonneg.mpr hx0.le
    have hcast : ((x.floor.toNat : ℕ) : ℚ) = (x.floor : ℚ) := by
      have : ((x.floor.toNat : ℕ) : ℤ) = x.floor := Int.toNat_of_nonneg hf0
      exact_mod_cast this
    generalize x.floor.toNat = fN at hcast
    rw [hcast]
    -- comparing a natural index with fN, in ℚ
    have hlow : ∀ k : ℕ, k ≤ fN → (k : ℚ) ≤ x.floor := by
      intro k hk; rw [← hcast]; exact_mod_cast hk
    have hlow1 : ∀ k : ℕ, k < fN → (k : ℚ) + 1 ≤ x.floor := by
      intro k hk; rw [← hcast]; exact_mod_cast hk
    have hhigh : ∀ k : ℕ, fN < k → (x.floor : ℚ) + 1 ≤ k := by
      intro k hk; rw [← hcast]; exact_mod_cast hk
    by_cases hc : x - (x.floor : ℚ) ≤ (x.floor : ℚ) + 1 - x
    · simp only [hc, if_true]
      by_cases hin : fN ≤ N - 1
      · rw [Nat.min_eq_left hin]
        refine ⟨by omega, ?_, ?_⟩
        · intro k _
          apply abs_le_abs_of_signs
          left
          refine ⟨by rw [hcast]; linarith, ?_⟩
          rw [hcast]
          by_cases hk : k ≤ fN
          · left; have := hlow k hk; linarith
          · right; have := hhigh k (by omega); linarith
        · intro k hk
          apply abs_lt_abs_of_signs
          left
          refine ⟨by rw [hcast]; linarith, Or.inl ?_⟩
          rw [hcast]
          have := hlow1 k hk; linarith
      · have hmin : min fN (N - 1) = N - 1 := Nat.min_eq_right (by omega)
        rw [hmin]
        have hNle : ((N - 1 : ℕ) : ℚ) ≤ x.floor := hlow _ (by omega)
        refine ⟨by omega, ?_, ?_⟩
        · intro k hk
          have hkN : (k : ℚ) ≤ ((N - 1 : ℕ) : ℚ) := by exact_mod_cast (by omega : k ≤ N - 1)
          apply abs_le_abs_of_signs
          left
          exact ⟨by linarith, Or.inl (by linarith)⟩
        · intro k hk
          have hkN : (k : ℚ) + 1 ≤ ((N - 1 : ℕ) : ℚ) := by exact_mod_cast hk
          apply abs_lt_abs_of_signs
          left
          exact ⟨by linarith, Or.inl (by linarith)⟩
    · simp only [hc, if_false]
      have hc' : (x.floor : ℚ) + 1 - x < x - x.floor := not_le.mp hc
      have hcast1 : ((fN + 1 : ℕ) : ℚ) = (x.floor : ℚ) + 1 := by push_cast; rw [hcast]
      by_cases hin : fN + 1 ≤ N - 1
      · rw [Nat.min_eq_left hin]
        refine ⟨by omega, ?_, ?_⟩
        · intro k _
          apply abs_le_abs_of_signs
          right
          refine ⟨by rw [hcast1]; linarith, ?_⟩
          rw [hcast1]
          by_cases hk : k ≤ fN
          · left; have := hlow k hk; linarith
          · right; have := hhigh k (by omega); linarith
        · intro k hk
          apply abs_lt_abs_of_signs
          right
          refine ⟨by rw [hcast1]; linarith, Or.inl ?_⟩
          rw [hcast1]
          have := hlow k (by omega); linarith
      · have hmin : min (fN + 1) (N - 1) = N - 1 := Nat.min_eq_right (by omega)
        rw [hmin]
        have hNle : ((N - 1 : ℕ) : ℚ) ≤ x.floor := hlow _ (by omega)
        refine ⟨by omega, ?_, ?_⟩
        · intro k hk
          have hkN : (k : ℚ) ≤ ((N - 1 : ℕ) : ℚ) := by exact_mod_cast (by omega : k ≤ N - 1)
          apply abs_le_abs_of_signs
          left
          exact ⟨by linarith, Or.inl (by linarith)⟩
        · intro k hk
          have hkN : (k : ℚ) + 1 ≤ ((N - 1 : ℕ) : ℚ) := by exact_mod_cast hk
          apply abs_lt_abs_of_signs
          left
          exact ⟨by linarith, Or.inl (by linarith)⟩

/-- the same in seconds: for a positive sample rate the index minimises `|k/SR - t|` -/
theorem nearestIdx_argmin_time (N : ℕ) (t sr : ℚ) (hN : 0 < N) (hsr : 0 < sr) :
    nearestIdx N (t * sr) < N ∧
    (∀ k : ℕ, k < N → |(nearestIdx N (t * sr) : ℚ) / sr - t| ≤ |(k : ℚ) / sr - t|) ∧
    (∀ k : ℕ, k < nearestIdx N (t * sr) → |(nearestIdx N (t * sr) : ℚ) / sr - t| < |(k : ℚ) / sr - t|) := by
  obtain ⟨h1, h2, h3⟩ := nearestIdx_argmin N (t * sr) hN
  have key : ∀ k : ℕ, |(k : ℚ) / sr - t| = |t * sr - (k : ℚ)| / sr := by
    intro k
    have : (k : ℚ) / sr - t = -((t * sr - (k : ℚ)) / sr) := by field_simp; ring
    rw [this, abs_neg, abs_div, abs_of_pos hsr]
  refine ⟨h1, ?_, ?_⟩
  · intro k hk
    rw [key, key]
    exact div_le_div_of_nonneg_right (h2 k hk) hsr.le
  · intro k hk
    rw [key, key]
    exact div_lt_div_of_pos_right (h3 k hk) hsr

/-! ### which part of the forged channel depends on which part of the blueprint -/

/-- forging two blueprints with the same sample rate, the same resolved durations and the same
    "bad special" verdict gives results that agree on every projection on which the assembled
    channels agree -/
theorem forgeBP_congr_parts {γ : Type} (a b : BP) (hs : a.SR = b.SR) (hr : a.resolveWaits = b.resolveWaits)
    (hb : badSpecial a = badSpecial b) (P : Forged → γ)
    (hP : ∀ sr ns, P (assemble a sr ns) = P (assemble b sr ns)) :
    (forgeBP a).map P = (forgeBP b).map P := by
  unfold forgeBP
  rw [hs, hr, hb]
  split
  · split
    · rfl
    · split
      · rfl
      · split
        · rfl
        · simp only [Except.map, hP]
  · rfl

/-- what the wait resolution looks at in a segment -/
def Seg.timing (s : Seg) : Bool × List Val × Val :=
  (s.fn.isWait, if s.fn.isWait then s.args else [], s.dur)

theorem resolveGo_timing (a b : List Seg) (el : ℚ) (h : a.map Seg.timing = b.map Seg.timing) :
    BP.resolveGo a el = BP.resolveGo b el := by
  induction a generalizing b el with
  | nil => cases b with
    | nil => rfl
    | cons y ys => simp at h
  | cons x xs ih =>
    cases b with
    | nil => simp at h
    | cons y ys =>
      simp only [List.map_cons, List.cons.injEq, Seg.timing, Prod.mk.injEq] at h
      obtain ⟨⟨hw, ha, hd⟩, ht⟩ := h
      simp only [BP.resolveGo]
      by_cases hx : x.fn.isWait = true
      · have hy : y.fn.isWait = true := by rw [← hw]; exact hx
        simp only [hx, hy, if_true] at ha ⊢
        rw [ha]
        split
        · split
          · rfl
          · rw [ih ys _ ht]
        · rfl
      · have hy : ¬ y.fn.isWait = true := by rw [← hw]; exact hx
        rw [if_neg hx, if_neg hy, hd]
        split
        · rw [ih ys _ ht]
        · rfl

theorem badSpecial_fns (a b : BP) (h : a.segs.map (·.fn) = b.segs.map (·.fn)) :
    badSpecial a = badSpecial b := by
  unfold badSpecial
  have e : ∀ l : List Seg, l.any (fun s => s.fn.special && !s.fn.isWait)
      = (l.map (fun s => s.fn)).any (fun f => f.special && !f.isWait) := by
    intro l; simp [List.any_map, Function.comp_def]
  rw [e, e, h]

theorem mkBlocks_fn_args (sr : ℚ) (a b : List Seg) (ns : List ℕ)
    (h : a.map (fun s => (s.fn, s.args)) = b.map (fun s => (s.fn, s.args))) :
    mkBlocks sr a ns = mkBlocks sr b ns := by
  induction a generalizing b ns with
  | nil => cases b with
    | nil => rfl
    | cons y ys => simp at h
  | cons x xs ih =>
    cases b with
    | nil => simp at h
    | cons y ys =>
      simp only [List.map_cons, List.cons.injEq, Prod.mk.injEq] at h
      cases ns with
      | nil => rfl
      | cons n ns => simp only [mkBlocks]; rw [h.1.1, h.1.2, ih ys ns h.2]

theorem segMarks_sel (sr : ℚ) (sel : Seg → Mark) (a b : List Seg) (sts : List ℕ)
    (h : a.map sel = b.map sel) : segMarks sr sel a sts = segMarks sr sel b sts := by
  induction a generalizing b sts with
  | nil => cases b with
    | nil => rfl
    | cons y ys => simp at h
  | cons x xs ih =>
    cases b with
    | nil => simp at h
    | cons y ys =>
      simp only [List.map_cons, List.cons.injEq] at h
      cases sts with
      | nil => rfl
      | cons st sts => simp only [segMarks, h.1, ih ys sts h.2]

/-- the waveform side of a forged channel -/
def Forged.wfmPart (f : Forged) : List Blk × ℕ × ℚ × List ℚ := (f.blocks, f.N, f.SR, f.newdurations)

/-- the marker side of a forged channel (with the block lengths) -/
def Forged.markPart (f : Forged) : List ℕ × List ℕ × ℕ × ℚ × List ℚ × List ℕ :=
  (f.m1, f.m2, f.N, f.SR, f.newdurations, f.blocks.map Blk.len)

theorem map_of_map_eq {α β γ} (l l' : List α) (g : α → β) (k : β → γ) (h : l.map g = l'.map g) :
    l.map (fun a => k (g a)) = l'.map (fun a => k (g a)) := by
  have := congrArg (List.map k) h
  simpa [List.map_map, Function.comp_def] using this

/-- **Waveform side depends only on functions, arguments, durations and the sample rate**: two
    blueprints that agree on these forge to the same blocks, sample count, sample rate and
    `newdurations`, and fail with the same error - whatever their markers are. -/
theorem forgeBP_wfmPart_congr (a b : BP) (hs : a.SR = b.SR)
    (h : a.segs.map (fun s => (s.fn, s.args, s.dur)) = b.segs.map (fun s => (s.fn, s.args, s.dur))) :
    (forgeBP a).map Forged.wfmPart = (forgeBP b).map Forged.wfmPart := by
  have hfa : a.segs.map (fun s => (s.fn, s.args)) = b.segs.map (fun s => (s.fn, s.args)) :=
    map_of_map_eq _ _ (fun s : Seg => (s.fn, s.args, s.dur)) (fun p => (p.1, p.2.1)) h
  have hfn : a.segs.map (·.fn) = b.segs.map (·.fn) :=
    map_of_map_eq _ _ (fun s : Seg => (s.fn, s.args, s.dur)) (fun p => p.1) h
  have hti : a.segs.map Seg.timing = b.segs.map Seg.timing :=
    map_of_map_eq _ _ (fun s : Seg => (s.fn, s.args, s.dur))
      (fun p => (p.1.isWait, if p.1.isWait then p.2.1 else [], p.2.2)) h
  apply forgeBP_congr_parts a b hs (resolveGo_timing _ _ 0 hti) (badSpecial_fns a b hfn)
  intro sr ns
  simp only [Forged.wfmPart, assemble, mkBlocks_fn_args sr _ _ ns hfa]

theorem mkBlocks_lens_fns (sr : ℚ) (a b : List Seg) (ns : List ℕ) (h : a.length = b.length) :
    (mkBlocks sr a ns).map Blk.len = (mkBlocks sr b ns).map Blk.len := by
  induction a generalizing b ns with
  | nil => cases b with
    | nil => rfl
    | cons y ys => simp at h
  | cons x xs ih =>
    cases b with
    | nil => simp at h
    | cons y ys =>
      cases ns with
      | nil => rfl
      | cons n ns =>
        simp only [mkBlocks, List.map_cons, Blk.len]
        rw [ih ys ns (by simpa using h)]

/-- **Marker side does not depend on the arguments of ordinary (non-waituntil) segments**: two
    blueprints that agree on functions, durations, waituntil arguments, segment-bound and absolute
    markers and the sample rate forge to the same marker arrays, sample count, `newdurations` and
    block lengths, and fail with the same error. -/
theorem forgeBP_markPart_congr (a b : BP) (hs : a.SR = b.SR)
    (hfn : a.segs.map (·.fn) = b.segs.map (·.fn))
    (hti : a.segs.map Seg.timing = b.segs.map Seg.timing)
    (hm1 : a.segs.map (·.m1) = b.segs.map (·.m1)) (hm2 : a.segs.map (·.m2) = b.segs.map (·.m2))
    (ha1 : a.marker1 = b.marker1) (ha2 : a.marker2 = b.marker2) :
    (forgeBP a).map Forged.markPart = (forgeBP b).map Forged.markPart := by
  apply forgeBP_congr_parts a b hs (resolveGo_timing _ _ 0 hti) (badSpecial_fns a b hfn)
  intro sr ns
  have hl : a.segs.length = b.segs.length := by
    have := congrArg List.length hfn; simpa using this
  simp only [Forged.markPart, assemble, ha1, ha2, segMarks_sel sr (·.m1) _ _ _ hm1,
    segMarks_sel sr (·.m2) _ _ _ hm2, mkBlocks_lens_fns sr _ _ ns hl]

/-- reading an `Except.map` equation: success side -/
theorem map_eq_ok {γ : Type} (P : Forged → γ) (x y : Except Err Forged)
    (h : x.map P = y.map P) (f : Forged) (hy : y = .ok f) : ∃ f', x = .ok f' ∧ P f' = P f := by
  subst hy
  cases x with
  | error e => simp [Except.map] at h
  | ok f' => exact ⟨f', rfl, by simpa [Except.map] using h⟩

/-- reading an `Except.map` equation: error side -/
theorem map_eq_error {γ : Type} (P : Forged → γ) (x y : Except Err Forged)
    (h : x.map P = y.map P) (e : Err) (hy : y = .error e) : x = .error e := by
  subst hy
  cases x with
  | error e' => simpa [Except.map] using h
  | ok f' => simp [Except.map] at h

/-! ### what `changeArg`, `setSegmentMarker`, `removeSegmentMarker` leave alone -/

theorem map_modify_inv_at {α β} (l : List α) (i : ℕ) (f : α → α) (g : α → β)
    (h : ∀ a, l[i]? = some a → g (f a) = g a) : (l.modify i f).map g = l.map g := by
  induction l generalizing i with
  | nil => simp
  | cons a t ih =>
    cases i with
    | zero => simp [List.modify_zero_cons, h a (by simp)]
    | succ i =>
      simp only [List.modify_succ_cons, List.map_cons, List.cons.injEq, true_and]
      exact ih i (fun x hx => h x (by simpa using hx))

theorem isWait_false_of_not_special (f : Fn) (h : f.special = false) : f.isWait = false := by
  simp [Fn.isWait, h]

/-- everything the marker side of forging looks at agrees -/
structure ArgFrame (a b : BP) : Prop where
  sr : a.SR = b.SR
  fn : a.segs.map (·.fn) = b.segs.map (·.fn)
  timing : a.segs.map Seg.timing = b.segs.map Seg.timing
  m1 : a.segs.map (·.m1) = b.segs.map (·.m1)
  m2 : a.segs.map (·.m2) = b.segs.map (·.m2)
  a1 : a.marker1 = b.marker1
  a2 : a.marker2 = b.marker2

theorem ArgFrame.refl (b : BP) : ArgFrame b b := ⟨rfl, rfl, rfl, rfl, rfl, rfl, rfl⟩

theorem ArgFrame.trans {a b c : BP} (h1 : ArgFrame a b) (h2 : ArgFrame b c) : ArgFrame a c :=
  ⟨h1.sr.trans h2.sr, h1.fn.trans h2.fn, h1.timing.trans h2.timing, h1.m1.trans h2.m1,
    h1.m2.trans h2.m2, h1.a1.trans h2.a1, h1.a2.trans h2.a2⟩

theorem argFrame_setArg (b : BP) (i k : ℕ) (v : Val) (seg : Seg) (hs : b.segs[i]? = some seg)
    (hsp : seg.fn.special = false) : ArgFrame (b.modifySeg i (BP.setArg k v)) b := by
  have hw := isWait_false_of_not_special _ hsp
  refine ⟨rfl, ?_, ?_, ?_, ?_, rfl, rfl⟩
  · exact map_modify_inv_at _ _ _ _ (fun a _ => rfl)
  · apply map_modify_inv_at
    intro a ha
    rw [hs] at ha
    cases ha
    simp [Seg.timing, BP.setArg, hw]
  · exact map_modify_inv_at _ _ _ _ (fun a _ => rfl)
  · exact map_modify_inv_at _ _ _ _ (fun a _ => rfl)

theorem argFrame_changeArgOne (b : BP) (nm : String) (arg value : Val) :
    ArgFrame (b.changeArgOne nm arg value).st b := by
  unfold BP.changeArgOne
  split
  · exact ArgFrame.refl b
  · rename_i i _
    split
    · exact ArgFrame.refl b
    · rename_i seg hseg
      split
      · exact ArgFrame.refl b
      · rename_i hsp
        split
        · exact ArgFrame.refl b
        · split
          · exact argFrame_setArg b i _ value seg hseg (by simpa using hsp)
          · exact ArgFrame.refl b

theorem argFrame_changeArgLoop (b : BP) (l : List String) (arg value : Val) :
    ArgFrame (b.changeArgLoop l arg value).st b := by
  induction l generalizing b with
  | nil => exact ArgFrame.refl b
  | cons nm rest ih =>
    unfold BP.changeArgLoop
    have h1 := argFrame_changeArgOne b nm arg value
    generalize b.changeArgOne nm arg value = r at h1
    obtain ⟨st, err⟩ := r
    cases err with
    | none => exact (ih st).trans h1
    | some e => exact h1

theorem argFrame_changeArg (b : BP) (name : String) (arg value : Val) (all : Bool) :
    ArgFrame (b.changeArg name arg value all).st b := by
  unfold BP.changeArg
  split
  · exact ArgFrame.refl b
  · exact argFrame_changeArgLoop b _ _ _

theorem setMark_wfm_fields (mid : ℤ) (m : Mark) (s : Seg) :
    ((BP.setMark mid m s).fn, (BP.setMark mid m s).args, (BP.setMark mid m s).dur) = (s.fn, s.args, s.dur) := by
  unfold BP.setMark; split <;> rfl

/-- `setSegmentMarker` and `removeSegmentMarker` only ever rewrite one segment's marker field -/
theorem setSegmentMarker_fields (b : BP) (name : String) (specs : Mark) (mid : ℤ) :
    (b.setSegmentMarker name specs mid).st.SR = b.SR ∧
    (b.setSegmentMarker name specs mid).st.marker1 = b.marker1 ∧
    (b.setSegmentMarker name specs mid).st.marker2 = b.marker2 ∧
    (b.setSegmentMarker name specs mid).st.segs.map (fun s => (s.fn, s.args, s.dur)) =
      b.segs.map (fun s => (s.fn, s.args, s.dur)) ∧
    (mid = 1 → (b.setSegmentMarker name specs mid).st.segs.map (·.m2) = b.segs.map (·.m2)) ∧
    (mid ≠ 1 → (b.setSegmentMarker name specs mid).st.segs.map (·.m1) = b.segs.map (·.m1)) := by
  unfold BP.setSegmentMarker
  split
  · exact ⟨rfl, rfl, rfl, rfl, fun _ => rfl, fun _ => rfl⟩
  · split
    · exact ⟨rfl, rfl, rfl, rfl, fun _ => rfl, fun _ => rfl⟩
    · refine ⟨rfl, rfl, rfl, ?_, ?_, ?_⟩
      · exact map_modify_inv_at _ _ _ _ (fun a _ => setMark_wfm_fields _ _ a)
      · intro h1; exact map_modify_inv_at _ _ _ _ (fun a _ => by simp [BP.setMark, h1])
      · intro h1; exact map_modify_inv_at _ _ _ _ (fun a _ => by simp [BP.setMark, h1])

theorem removeSegmentMarker_fields (b : BP) (name : String) (mid : ℤ) :
    (b.removeSegmentMarker name mid).st.SR = b.SR ∧
    (b.removeSegmentMarker name mid).st.marker1 = b.marker1 ∧
    (b.removeSegmentMarker name mid).st.marker2 = b.marker2 ∧
    (b.removeSegmentMarker name mid).st.segs.map (fun s => (s.fn, s.args, s.dur)) =
      b.segs.map (fun s => (s.fn, s.args, s.dur)) ∧
    (mid = 1 → (b.removeSegmentMarker name mid).st.segs.map (·.m2) = b.segs.map (·.m2)) ∧
    (mid ≠ 1 → (b.removeSegmentMarker name mid).st.segs.map (·.m1) = b.segs.map (·.m1)) := by
  unfold BP.removeSegmentMarker
  split
  · exact ⟨rfl, rfl, rfl, rfl, fun _ => rfl, fun _ => rfl⟩
  · split
    · exact ⟨rfl, rfl, rfl, rfl, fun _ => rfl, fun _ => rfl⟩
    · refine ⟨rfl, rfl, rfl, ?_, ?_, ?_⟩
      · exact map_modify_inv_at _ _ _ _ (fun a _ => setMark_wfm_fields _ _ a)
      · intro h1; exact map_modify_inv_at _ _ _ _ (fun a _ => by simp [BP.setMark, h1])
      · intro h1; exact map_modify_inv_at _ _ _ _ (fun a _ => by simp [BP.setMark, h1])

/-- one marker channel of the forged result depends only on the waveform fields, that channel's
    segment-bound specs and that channel's absolute list -/
theorem forgeBP_m1_congr (a b : BP) (hs : a.SR = b.SR)
    (h : a.segs.map (fun s => (s.fn, s.args, s.dur)) = b.segs.map (fun s => (s.fn, s.args, s.dur)))
    (hm : a.segs.map (·.m1) = b.segs.map (·.m1)) (ha : a.marker1 = b.marker1) :
    (forgeBP a).map (·.m1) = (forgeBP b).map (·.m1) := by
  have hfn : a.segs.map (·.fn) = b.segs.map (·.fn) :=
    map_of_map_eq _ _ (fun s : Seg => (s.fn, s.args, s.dur)) (fun p => p.1) h
  have hti : a.segs.map Seg.timing = b.segs.map Seg.timing :=
    map_of_map_eq _ _ (fun s : Seg => (s.fn, s.args, s.dur))
      (fun p => (p.1.isWait, if p.1.isWait then p.2.1 else [], p.2.2)) h
  apply forgeBP_congr_parts a b hs (resolveGo_timing _ _ 0 hti) (badSpecial_fns a b hfn)
  intro sr ns
  simp only [assemble, ha, segMarks_sel sr (·.m1) _ _ _ hm]

theorem forgeBP_m2_congr (a b : BP) (hs : a.SR = b.SR)
    (h : a.segs.map (fun s => (s.fn, s.args, s.dur)) = b.segs.map (fun s => (s.fn, s.args, s.dur)))
    (hm : a.segs.map (·.m2) = b.segs.map (·.m2)) (ha : a.marker2 = b.marker2) :
    (forgeBP a).map (·.m2) = (forgeBP b).map (·.m2) := by
  have hfn : a.segs.map (·.fn) = b.segs.map (·.fn) :=
    map_of_map_eq _ _ (fun s : Seg => (s.fn, s.args, s.dur)) (fun p => p.1) h
  have hti : a.segs.map Seg.timing = b.segs.map Seg.timing :=
    map_of_map_eq _ _ (fun s : Seg => (s.fn, s.args, s.dur))
      (fun p => (p.1.isWait, if p.1.isWait then p.2.1 else [], p.2.2)) h
  apply forgeBP_congr_parts a b hs (resolveGo_timing _ _ 0 hti) (badSpecial_fns a b hfn)
  intro sr ns
  simp only [assemble, ha, segMarks_sel sr (·.m2) _ _ _ hm]

end BB
