/-
  BB.Proofs.G13Perm — helper lemmas for C20: `Sequence.forge` and the order in which *channels*
  were added to the elements (and positions to the subsequences).

  Python's `dict.__eq__` ignores insertion order, so two elements that compare equal may list their
  channels in different orders.  This file shows that a *successful* forge does not depend on those
  orders, up to the order in which the output dictionaries list their channels - provided
  `validateDurations` gives the same verdict on corresponding elements (it measures every channel
  against the *first* one, so its verdict can depend on the order).

  Everything is in the "ok direction" (`OkRel`): if the left-hand side succeeds, so does the
  right-hand side, with a related result.  (Which exception a failing forge raises depends on the
  order.)
-/
import BB.Proofs.G13PermBase
import BB.Proofs.G6Forge
import BB.Proofs.G3Sort
import BB.Proofs.G4Seq
import BB.Proofs.G4Elem
import BB.Proofs.G4Zero
import BB.Proofs.Paths

namespace BB
open Element

theorem validate_SR_perm {e e' : Element} (h : ElPerm e e') {m m' : Val × ℚ} (hv : e.validate = .ok m)
    (hv' : e'.validate = .ok m') : m.1 = m'.1 := by
  have hne : e.chans ≠ [] := by
    intro hnil
    unfold Element.validate at hv
    simp [hnil, Dict.vals] at hv
  obtain ⟨x, hx⟩ := List.exists_mem_of_ne_nil _ hne
  have h1 := (g4_validate_SR e m hv).2 x hx
  have h2 := (g4_validate_SR e' m' hv').2 x (h.mem_iff.mp hx)
  rw [h1] at h2
  exact Except.ok.inj h2

theorem ElPV.getSR {e e' : Element} (h : ElPV e e') : OkRel (· = ·) e.getSR e'.getSR := by
  intro u hu
  unfold Element.getSR at hu ⊢
  cases hm : e.validate with
  | error er => rw [hm] at hu; simp [Except.map] at hu
  | ok m =>
    obtain ⟨m', hm'⟩ := h.2.mp ⟨m, hm⟩
    rw [hm] at hu
    simp only [Except.map, Except.ok.injEq] at hu
    refine ⟨m'.1, by rw [hm']; rfl, ?_⟩
    rw [← hu]
    exact validate_SR_perm h.1 hm hm'

/-! ### `_applyDelays` under a permutation of the channels -/

theorem applyDelays_nonneg (e : Element) (ds : List ℚ) (h : (e.applyDelays ds).err = none) :
    ds.any (· < 0) = false := by
  unfold Element.applyDelays at h
  split at h
  · simp at h
  · split at h
    · simp at h
    · rename_i hneg
      simpa using hneg

theorem applyDelays_intro (e : Element) (ds : List ℚ) (chans' : Dict Chan ChEntry) (m : Val × ℚ) (sr : ℚ)
    (hl : ds.length = e.chans.length) (hn : ds.any (· < 0) = false) (hv : e.validate = .ok m) (hm : m.1 = .num sr)
    (hz : (e.chans.zip ds).mapM (fun p => (delayChan sr (maxR ds) p.1.2 p.2).map (fun y => (p.1.1, y))) = .ok chans') :
    (e.applyDelays ds).err = none ∧ (e.applyDelays ds).st.chans = chans' := by
  unfold Element.applyDelays
  simp only [hl, ne_eq, not_true_eq_false, if_false, hn, Bool.false_eq_true, hv, hm, hz]
  simp

namespace Sequence

/-- **the delay step under a permutation of the channels**: if `forge`'s delay step succeeds on an
    element, it succeeds on every element holding the same channel entries in another order and
    getting the same verdict from `validateDurations`, and the two delayed elements again hold the
    same channel entries (in the respective orders) -/
theorem delayElement_perm (a b : Sequence) (hs : LookEq a.awgspecs b.awgspecs) {e e' : Element} (h : ElPV e e') :
    OkRel ElPerm (a.delayElement e) (b.delayElement e') := by
  obtain ⟨hp, hv⟩ := h
  intro x hx
  obtain ⟨ds, hds, herr, hst⟩ := g4_delayElement_ok a e x hx
  obtain ⟨m, sr, hval, hm, hlen, hz⟩ := Paths.applyDelays_ok e ds herr
  have hneg := applyDelays_nonneg e ds herr
  have hds_b : e.channels.mapM b.delayOf = .ok ds := by
    rw [← hds]
    exact mapM_congr_mem _ _ _ (fun ch _ => (delayOf_congr a b hs ch).symm)
  obtain ⟨ds', hds', hpd⟩ := mapM_perm_ok b.delayOf hp.channels ds hds_b
  obtain ⟨m', hval'⟩ := hv.mp ⟨m, hval⟩
  have hm' : m'.1 = .num sr := by rw [← validate_SR_perm hp hval hval']; exact hm
  have e1 : ds = e.chans.map (fun p => Paths.delayFn b p.1) := by
    have := Paths.mapM_eq_map b.delayOf e.channels ds hds_b 0
    rw [this]
    simp [Element.channels, Dict.keys, List.map_map, Paths.delayFn, Function.comp_def]
  have e2 : ds' = e'.chans.map (fun p => Paths.delayFn b p.1) := by
    have := Paths.mapM_eq_map b.delayOf e'.channels ds' hds' 0
    rw [this]
    simp [Element.channels, Dict.keys, List.map_map, Paths.delayFn, Function.comp_def]
  have hzp : (e.chans.zip ds).Perm (e'.chans.zip ds') := by
    rw [e1, e2, zip_map_self, zip_map_self]
    exact hp.map _
  obtain ⟨chans'', hz', hpc⟩ := mapM_perm_ok _ hzp _ hz
  have hfun : (fun (p : (Chan × ChEntry) × ℚ) => (delayChan sr (maxR ds') p.1.2 p.2).map (fun y => (p.1.1, y))) =
      (fun p => (Paths.dEnt sr (maxR ds) p.1.2 p.2).map (fun y => (p.1.1, y))) := by
    funext p
    rw [Paths.delayChan_eq, Paths.maxR_perm ds' ds hpd.symm]
  have hneg' : ds'.any (· < 0) = false := by
    rw [Bool.eq_false_iff] at hneg ⊢
    intro hany
    apply hneg
    rw [List.any_eq_true] at hany ⊢
    obtain ⟨d, hd, hlt⟩ := hany
    exact ⟨d, hpd.mem_iff.mpr hd, hlt⟩
  have hlen' : ds'.length = e'.chans.length := by
    rw [← hpd.length_eq, hlen, hp.length_eq]
  have hin := applyDelays_intro e' ds' chans'' m' sr hlen' hneg' hval' hm' (by rw [hfun]; exact hz')
  refine ⟨(e'.applyDelays ds').st, ?_, ?_⟩
  · unfold delayElement delaysFor
    simp only [hds', bind, Except.bind, hin.1]
    rfl
  · show x.chans.Perm (e'.applyDelays ds').st.chans
    rw [← hst, hin.2]
    exact hpc

end Sequence

/-! ### entries and subsequences, channels and inner positions in any order -/

theorem SubSeq.checkConsistency_true_iff (s : SubSeq) :
    s.checkConsistency = .ok true ↔
      Dict.has s.awgspecs "SR" = true ∧ ∃ srs, (Dict.vals s.data).mapM (fun e => e.getSR) = .ok srs ∧
        Element.allSame srs = true ∧
        allEqLast ((Dict.vals s.data).map (fun e => channelListSorter e.channels)) = true ∧
        gapFree (Dict.keys s.data) = true := by
  unfold SubSeq.checkConsistency
  cases Dict.has s.awgspecs "SR" with
  | false => simp
  | true =>
    simp only [Bool.not_true, Bool.false_eq_true, if_false, true_and]
    cases (Dict.vals s.data).mapM (fun e => e.getSR) with
    | error e => simp
    | ok srs =>
      simp only [Except.ok.injEq, exists_eq_left']
      cases Element.allSame srs with
      | false => simp
      | true =>
        simp only [Bool.not_true, Bool.false_eq_true, if_false, true_and]
        cases allEqLast ((Dict.vals s.data).map (fun e => channelListSorter e.channels)) <;> simp

theorem SubSeq.checkConsistency_look {s s' : SubSeq} (h : SubLook ElPV s s') (hc : s.checkConsistency = .ok true) :
    s'.checkConsistency = .ok true := by
  rw [SubSeq.checkConsistency_true_iff] at hc ⊢
  obtain ⟨h1, srs, h2, h3, h4, h5⟩ := hc
  obtain ⟨m, hrm, hpm⟩ := h.1.mid
  have hv1 := Dict.Rel.vals hrm
  have hv2 : (Dict.vals m).Perm (Dict.vals s'.data) := hpm.map _
  obtain ⟨srsm, hsm, hfm⟩ := mapM_okrel ElPV (· = ·) (fun e => e.getSR) (fun e => e.getSR)
    (fun _ _ hxy => hxy.getSR) hv1 srs h2
  have : srs = srsm := forall2_eq hfm
  subst this
  obtain ⟨srs', hs', hps⟩ := mapM_perm_ok _ hv2 srs hsm
  refine ⟨by rw [← hasSR_congr s s' h.2.1]; exact h1, srs', hs', by rw [← allSame_perm hps]; exact h3, ?_, ?_⟩
  · have e1 : (Dict.vals s.data).map (fun e => channelListSorter e.channels) =
        (Dict.vals m).map (fun e => channelListSorter e.channels) :=
      forall2_map_eq (R := ElPV) _ _ (fun _ _ hxy => G3.channelListSorter_of_perm hxy.1.channels) hv1
    rw [← allEqLast_perm (hv2.map (fun e => channelListSorter e.channels)), ← e1]
    exact h4
  · rw [← gapFree_of_perm h.1.keys]; exact h5

theorem SubSeq.channels_ok_iff (s : SubSeq) (c : List Chan) :
    s.channels = .ok c ↔ s.checkConsistency = .ok true ∧ ∃ e, Dict.get? s.data 1 = some e ∧ c = e.channels := by
  unfold SubSeq.channels
  cases hc : s.checkConsistency with
  | error er => simp [bind, Except.bind]
  | ok v =>
    cases v with
    | false => simp [bind, Except.bind, throw, throwThe, MonadExceptOf.throw]
    | true =>
      cases hg : Dict.get? s.data 1 with
      | none => simp [bind, Except.bind, throw, throwThe, MonadExceptOf.throw]
      | some e =>
        simp only [bind, Except.bind, Bool.not_true, Bool.false_eq_true, if_false, pure, Except.pure, Except.ok.injEq,
          true_and, Option.some.injEq, exists_eq_left']
        exact eq_comm

theorem SubSeq.channels_look {s s' : SubSeq} (h : SubLook ElPV s s') : OkRel List.Perm s.channels s'.channels := by
  intro c hc
  obtain ⟨hcc, e, hg, rfl⟩ := (SubSeq.channels_ok_iff s c).mp hc
  obtain ⟨e', hg', hR⟩ := h.1.get 1 e hg
  exact ⟨e'.channels, (SubSeq.channels_ok_iff s' _).mpr ⟨SubSeq.checkConsistency_look h hcc, e', hg', rfl⟩,
    hR.1.channels⟩

theorem EntLook.getSR {x y : Entry} (h : EntLook ElPV x y) : OkRel (· = ·) x.getSR y.getSR := by
  cases x <;> cases y <;> simp only [EntLook] at h
  · exact h.getSR
  · intro u hu
    simp only [Entry.getSR, Except.ok.injEq] at hu ⊢
    exact ⟨_, rfl, by rw [← hu, getSR_congr _ _ h.2.1]⟩

theorem EntLook.channels {x y : Entry} (h : EntLook ElPV x y) : OkRel List.Perm x.channels y.channels := by
  cases x <;> cases y <;> simp only [EntLook] at h
  · intro u hu
    simp only [Entry.channels, Except.ok.injEq] at hu ⊢
    exact ⟨_, rfl, by rw [← hu]; exact h.1.channels⟩
  · exact SubSeq.channels_look h

namespace Sequence

section look
variable (a c : Sequence) (hs : LookEq a.awgspecs c.awgspecs) (hq : LookEq a.sequencing c.sequencing)

include hs in
theorem delayEntry_look (d : Bool) {x y : Entry} (h : EntLook ElPV x y) :
    OkRel (EntLook ElPerm) (a.delayEntry d x) (c.delayEntry d y) := by
  cases x <;> cases y <;> simp only [EntLook] at h
  · rename_i e e'
    unfold delayEntry
    cases d
    · intro u hu
      simp only [Bool.false_eq_true, if_false, Except.ok.injEq] at hu ⊢
      exact ⟨_, rfl, by rw [← hu]; exact h.1⟩
    · simp only [if_true]
      intro u hu
      cases hx : a.delayElement e with
      | error er => rw [hx] at hu; simp [Except.map] at hu
      | ok x' =>
        obtain ⟨y', hy', hR⟩ := delayElement_perm a c hs h x' hx
        rw [hx] at hu
        simp only [Except.map, Except.ok.injEq] at hu
        exact ⟨.el y', by rw [hy']; rfl, by rw [← hu]; exact hR⟩
  · rename_i s s'
    unfold delayEntry
    cases d
    · intro u hu
      simp only [Bool.false_eq_true, if_false, Except.ok.injEq] at hu ⊢
      exact ⟨_, rfl, by rw [← hu]; exact h.mono (fun _ _ hxy => hxy.1)⟩
    · simp only [if_true]
      intro u hu
      cases hx : s.data.mapM (fun pe => (a.delayElement pe.2).map (fun e' => (pe.1, e'))) with
      | error er => rw [hx] at hu; simp [Except.map] at hu
      | ok dd =>
        rw [hx] at hu
        simp only [Except.map, Except.ok.injEq] at hu
        obtain ⟨m, hrm, hpm⟩ := h.1.mid
        obtain ⟨ddm, hdm, hfm⟩ := mapM_okrel (fun (p q : Int × Element) => p.1 = q.1 ∧ ElPV p.2 q.2)
          (fun (p q : Int × Element) => p.1 = q.1 ∧ ElPerm p.2 q.2)
          (fun pe => (a.delayElement pe.2).map (fun e' => (pe.1, e')))
          (fun pe => (c.delayElement pe.2).map (fun e' => (pe.1, e')))
          (by
            intro p q hpq u hu
            cases hp : a.delayElement p.2 with
            | error er => rw [hp] at hu; simp [Except.map] at hu
            | ok x' =>
              obtain ⟨y', hy', hR⟩ := delayElement_perm a c hs hpq.2 x' hp
              rw [hp] at hu
              simp only [Except.map, Except.ok.injEq] at hu
              exact ⟨(q.1, y'), by rw [hy']; rfl, by rw [← hu]; exact ⟨hpq.1, hR⟩⟩) hrm dd hx
        obtain ⟨dd', hd', hpd⟩ := mapM_perm_ok _ hpm ddm hdm
        have hk : Dict.keys dd = Dict.keys s.data := mapM_keyed_keys (fun pe => a.delayElement pe.2) s.data dd hx
        have hwf : Dict.WF dd := by unfold Dict.WF; rw [hk]; exact h.1.wf
        refine ⟨.sub { s' with data := dd' }, by rw [hd']; rfl, ?_⟩
        rw [← hu]
        exact ⟨DictLook.of_rel_perm hwf hfm hpd, h.2.1, h.2.2⟩

theorem forgeInner_look (t : Bool) {s s' : SubSeq} (h : SubLook ElPerm s s') :
    OkRel (List.Forall₂ ContentSame) (forgeInner t s) (forgeInner t s') := by
  unfold forgeInner
  rw [h.1.length]
  refine mapM_okrel (· = ·) _ _ _ ?_ (forall2_refl _ _ (fun _ _ => rfl))
  rintro j _ rfl u hu
  cases hg : Dict.get? s.data ((j + 1 : Nat) : Int) with
  | none => rw [hg] at hu; cases hu
  | some e =>
    obtain ⟨e', hg', hR⟩ := h.1.get _ e hg
    rw [hg] at hu
    rw [hg']
    simp only at hu ⊢
    cases ha : e.getArrays t with
    | error er => rw [ha] at hu; cases hu
    | ok arr =>
      obtain ⟨arr', ha', hpa⟩ := hR.getArrays t arr ha
      rw [ha] at hu
      rw [ha', ← h.2.2]
      simp only at hu ⊢
      cases hq2 : Dict.get? s.sequencing ((j + 1 : Nat) : Int) with
      | none => rw [hq2] at hu; cases hu
      | some q2 =>
        rw [hq2] at hu
        simp only [Except.ok.injEq] at hu ⊢
        exact ⟨_, rfl, by rw [← hu]; exact ⟨rfl, hpa, rfl⟩⟩

/-- what `forgeEntry` delivers, up to the order of the channel dictionaries -/
def RawPosSame (u v : Nat × SeqSet × Bool × RawContent) : Prop :=
  u.1 = v.1 ∧ u.2.1 = v.2.1 ∧ u.2.2.1 = v.2.2.1 ∧ List.Forall₂ ContentSame u.2.2.2 v.2.2.2

include hq in
theorem forgeEntry_look (t : Bool) (p : Nat) {x y : Entry} (h : EntLook ElPerm x y) :
    OkRel RawPosSame (a.forgeEntry t (p, x)) (c.forgeEntry t (p, y)) := by
  intro u hu
  unfold forgeEntry at hu ⊢
  simp only at hu ⊢
  rw [← hq]
  cases hsq : Dict.get? a.sequencing (p : Int) with
  | none => rw [hsq] at hu; cases hu
  | some sq =>
    rw [hsq] at hu
    simp only at hu ⊢
    cases x <;> cases y <;> simp only [EntLook] at h
    · rename_i e e'
      simp only at hu ⊢
      cases ha : e.getArrays t with
      | error er => rw [ha] at hu; simp [Except.map] at hu
      | ok arr =>
        obtain ⟨arr', ha', hpa⟩ := ElPerm.getArrays h t arr ha
        rw [ha] at hu
        rw [ha']
        simp only [Except.map, Except.ok.injEq] at hu ⊢
        exact ⟨_, rfl, by rw [← hu]; exact ⟨rfl, rfl, rfl, List.Forall₂.cons ⟨rfl, hpa, rfl⟩ List.Forall₂.nil⟩⟩
    · rename_i s s'
      simp only at hu ⊢
      cases hi : forgeInner t s with
      | error er => rw [hi] at hu; simp [Except.map] at hu
      | ok inner =>
        obtain ⟨inner', hi', hpi⟩ := forgeInner_look t h inner hi
        rw [hi] at hu
        rw [hi']
        simp only [Except.map, Except.ok.injEq] at hu ⊢
        exact ⟨_, rfl, by rw [← hu]; exact ⟨rfl, rfl, rfl, hpi⟩⟩

theorem filterEntry_look (f : Bool) {u v : Nat × SeqSet × Bool × RawContent} (h : RawPosSame u v) :
    OkRel PosSame (a.filterEntry f u) (a.filterEntry f v) := by
  obtain ⟨h1, h2, h3, h4⟩ := h
  intro r hr
  unfold filterEntry at hr ⊢
  cases hm : u.2.2.2.mapM (fun c => (a.withFilters f c.2.1).map (fun x => (c.1, x, c.2.2))) with
  | error er => rw [hm] at hr; simp [Except.map] at hr
  | ok content =>
    obtain ⟨content', hm', hf⟩ := mapM_okrel (ContentSame (α := Element.ChOut)) (ContentSame (α := ChOutF))
      (fun c => (a.withFilters f c.2.1).map (fun x => (c.1, x, c.2.2)))
      (fun c => (a.withFilters f c.2.1).map (fun x => (c.1, x, c.2.2)))
      (by
        intro x y hxy w hw
        cases hx : a.withFilters f x.2.1 with
        | error er => rw [hx] at hw; simp [Except.map] at hw
        | ok cx =>
          obtain ⟨cy, hy, hp⟩ := mapM_perm_ok (a.attach f) hxy.2.1 cx hx
          rw [hx] at hw
          simp only [Except.map, Except.ok.injEq] at hw
          refine ⟨(y.1, cy, y.2.2), ?_, ?_⟩
          · show Except.map _ (a.withFilters f y.2.1) = _
            unfold withFilters
            rw [hy]; rfl
          · rw [← hw]; exact ⟨hxy.1, hp, hxy.2.2⟩) h4 content hm
    rw [hm] at hr
    rw [hm']
    simp only [Except.map, Except.ok.injEq] at hr ⊢
    exact ⟨_, rfl, by rw [← hr]; exact ⟨h1, h2, h3, hf⟩⟩

include hs hq in
theorem forgePos_look (d f t : Bool) (p : Nat) {x y : Entry} (h : EntLook ElPV x y) :
    OkRel PosSame (a.forgePos d f t p x) (c.forgePos d f t p y) := by
  intro r hr
  unfold forgePos at hr ⊢
  cases hd : a.delayEntry d x with
  | error er => rw [hd] at hr; cases hr
  | ok x' =>
    obtain ⟨y', hd', hR⟩ := delayEntry_look a c hs d h x' hd
    rw [hd] at hr
    rw [hd']
    simp only at hr ⊢
    cases hf : a.forgeEntry t (p, x') with
    | error er => rw [hf] at hr; cases hr
    | ok u =>
      obtain ⟨v, hf', hRR⟩ := forgeEntry_look a c hq t p hR u hf
      rw [hf] at hr
      rw [hf', ← filterEntry_congr a c hs]
      simp only at hr ⊢
      exact filterEntry_look a f hRR r hr

variable (hd : Dict.Rel (EntLook ElPV) a.data c.data)

include hd hs in
theorem checkConsistency_look (hc : a.checkConsistency = .ok true) : c.checkConsistency = .ok true := by
  rw [checkConsistency_true_iff] at hc ⊢
  obtain ⟨h1, srs, h2, h3, chans, h4, h5, h6⟩ := hc
  have hv := Dict.Rel.vals hd
  obtain ⟨srs', hs', hf⟩ := mapM_okrel (EntLook ElPV) (· = ·) Entry.getSR Entry.getSR (fun _ _ h => h.getSR) hv srs h2
  have : srs = srs' := forall2_eq hf
  subst this
  obtain ⟨chans', hc', hfc⟩ := mapM_okrel (EntLook ElPV) List.Perm Entry.channels Entry.channels
    (fun _ _ h => h.channels) hv chans h4
  refine ⟨by rw [← hasSR_congr a c hs]; exact h1, srs, hs', h3, chans', hc', ?_, by rw [← hd.keys]; exact h6⟩
  have : chans.map channelListSorter = chans'.map channelListSorter :=
    forall2_map_eq (R := List.Perm) _ _ (fun _ _ hxy => G3.channelListSorter_of_perm hxy) hfc
  rw [← this]
  exact h5

include hd hs in
theorem channels_look (hc : a.checkConsistency = .ok true) (hch : ∃ x, a.channels = .ok x) : ∃ y, c.channels = .ok y := by
  obtain ⟨x, hx⟩ := hch
  have hcc := checkConsistency_look a c hs hd hc
  unfold channels at hx ⊢
  simp only [hc, hcc, bind, Except.bind, Bool.not_true, Bool.false_eq_true, if_false] at hx ⊢
  rcases hd.get? 1 with ⟨h1, h2⟩ | ⟨u, v, h1, h2, hR⟩
  · rw [h1] at hx; simp [throw, throwThe, MonadExceptOf.throw] at hx
  · rw [h1] at hx
    rw [h2]
    simp only at hx ⊢
    obtain ⟨y, hy, _⟩ := hR.channels x hx
    exact ⟨y, hy⟩

include hd hs hq in
/-- **a successful `forge` does not depend on the order in which the channels were added to the
    elements (nor on the order in which the positions of a subsequence were filled)**: if the two
    stores hold, position by position, elements with the same channel entries in any order and
    the same verdict of `validateDurations` (or subsequences of such elements), and settings and
    sequencing answer every look-up alike, then whenever the first sequence forges, the second
    forges too, to the same output up to the order in which each channel dictionary lists its
    channels -/
theorem forge_look (d f t : Bool) : OkRel ForgedSame (a.forge d f t) (c.forge d f t) := by
  intro out hout
  obtain ⟨hc, hch⟩ := g4_forge_ok_consistent a d f t out hout
  obtain ⟨hlen, hpos⟩ := forge_pos a d f t out hout
  have hpw : ∀ i, i < out.length → ∃ r : Nat × ForgedPos,
      (∃ en, Dict.get? c.data ((i + 1 : Nat) : Int) = some en ∧ c.forgePos d f t (i + 1) en = .ok r) ∧
      ∀ hi : i < out.length, PosSame out[i] r := by
    intro i hi
    obtain ⟨en, hen, hfp⟩ := hpos i hi
    rcases hd.get? ((i + 1 : Nat) : Int) with ⟨h1, _⟩ | ⟨u, v, h1, h2, hR⟩
    · rw [h1] at hen; cases hen
    · rw [h1] at hen
      cases hen
      obtain ⟨r, hr, hS⟩ := forgePos_look a c hs hq d f t (i + 1) hR _ hfp
      exact ⟨r, ⟨v, h2, hr⟩, fun _ => hS⟩
  obtain ⟨out', hl', hP⟩ := exists_list_of_pointwise out.length
    (fun i r => (∃ en, Dict.get? c.data ((i + 1 : Nat) : Int) = some en ∧ c.forgePos d f t (i + 1) en = .ok r) ∧
      ∀ hi : i < out.length, PosSame out[i] r) hpw
  refine ⟨out', ?_, ?_⟩
  · apply g4_forge_intro c d f t out' (checkConsistency_look a c hs hd hc) (channels_look a c hs hd hc hch)
    · rw [hl', hlen, hd.length]
    · intro i hi
      exact (hP i hi).1
  · apply forall2_of_getElem _ _ _ hl'.symm
    intro i h1 h2
    exact (hP i h2).2 h1

end look

end Sequence
end BB
