/-
  BB.Proofs.G1Insert — what inserting an ordinary segment does to the forged result:
  whole-sample shifts of `nearestIdx` / `sliceStop` / `window`, how `starts` and `segMarks` split
  over a concatenation, and forging of a blueprint with one segment inserted.
-/
import BB.Proofs.Forge
import BB.Proofs.Body
import BB.Proofs.G1Wait
import Mathlib.Tactic.Linarith
import Mathlib.Tactic.Ring
import Mathlib.Tactic.FieldSimp

namespace BB
open BP

/-! ### whole-sample shifts -/

/-- shifting the axis and the target by `n` whole samples shifts the nearest index by `n`
    (for a target not before the waveform) -/
theorem nearestIdx_shift (N n : ℕ) (x : ℚ) (hN : 0 < N) (hx : 0 ≤ x) :
    nearestIdx (N + n) (x + (n : ℚ)) = nearestIdx N x + n := by
  have hN0 : N ≠ 0 := by omega
  have hNn : N + n ≠ 0 := by omega
  by_cases hx0 : x = 0
  · subst hx0
    by_cases hn : n = 0
    · subst hn; simp [nearestIdx]
    · have hpos : ¬ ((0 : ℚ) + (n : ℚ) ≤ 0) := by
        have : (0 : ℚ) < n := by exact_mod_cast Nat.pos_of_ne_zero hn
        linarith
      have hfl : ((0 : ℚ) + (n : ℚ)).floor = (n : ℤ) := by
        rw [zero_add]; exact (Int.floor_natCast n : ⌊(n : ℚ)⌋ = (n : ℤ))
      unfold nearestIdx
      simp only [hpos, if_false, hNn, hfl, Int.toNat_natCast, le_refl, if_true]
      have : (0 : ℚ) + (n : ℚ) - (n : ℚ) ≤ (n : ℚ) + 1 - ((0 : ℚ) + (n : ℚ)) := by linarith
      simp only [this, if_true]
      omega
  · have hxpos : 0 < x := lt_of_le_of_ne hx (Ne.symm hx0)
    have hxn : ¬ (x + (n : ℚ) ≤ 0) := by
      have : (0 : ℚ) ≤ n := Nat.cast_nonneg n
      linarith
    have hxn' : ¬ (x ≤ 0) := not_le.mpr hxpos
    have hfl : (x + (n : ℚ)).floor = x.floor + (n : ℤ) := Int.floor_add_natCast x n
    have hf0 : 0 ≤ x.floor := Int.floor_nonneg.mpr hx
    have htn : (x.floor + (n : ℤ)).toNat = x.floor.toNat + n := by omega
    have hcast : ((x.floor.toNat : ℕ) : ℚ) = (x.floor : ℚ) := by
      have : ((x.floor.toNat : ℕ) : ℤ) = x.floor := Int.toNat_of_nonneg hf0
      exact_mod_cast this
    unfold nearestIdx
    simp only [hxn, hxn', if_false, hN0, hNn, hfl, htn]
    have hiff : (x + (n : ℚ) - ((x.floor.toNat + n : ℕ) : ℚ) ≤ ((x.floor.toNat + n : ℕ) : ℚ) + 1 - (x + (n : ℚ))) ↔
        (x - ((x.floor.toNat : ℕ) : ℚ) ≤ ((x.floor.toNat : ℕ) : ℚ) + 1 - x) := by
      push_cast
      constructor <;> intro h <;> linarith
    by_cases hc : x - ((x.floor.toNat : ℕ) : ℚ) ≤ ((x.floor.toNat : ℕ) : ℚ) + 1 - x
    · simp only [hiff.mpr hc, hc, if_true]
      omega
    · have hc' := (not_congr hiff).mpr hc
      simp only [hc', hc, if_false]
      omega

theorem sliceStop_shift (N n : ℕ) (s : ℤ) (hs : 0 ≤ s) :
    sliceStop (N + n) (s + (n : ℤ)) = sliceStop N s + n := by
  unfold sliceStop
  have h1 : ¬ s < 0 := by omega
  have h2 : ¬ s + (n : ℤ) < 0 := by omega
  simp only [h1, h2, if_false]
  omega

/-- a marker shifted by `n` whole samples in time -/
def shiftMark (sr : ℚ) (n : ℕ) (m : Mark) : Mark := (m.1 + ((n : ℤ) : ℚ) / sr, m.2)

/-- **Window shift**: on a waveform that became `n` samples longer, the window of a marker moved by
    `n` samples in time is the old window moved by `n` samples - start and (clipped) stop alike -
    provided the ON time is not before the waveform and the rounded length is not negative. -/
theorem window_shift (N n : ℕ) (sr : ℚ) (m : Mark) (hN : 0 < N) (hsr : sr ≠ 0)
    (hon : 0 ≤ m.1 * sr) (hlen : 0 ≤ rhe (m.2 * sr)) :
    window (N + n) sr (shiftMark sr n m) = ((window N sr m).1 + n, (window N sr m).2 + n) := by
  unfold window shiftMark
  simp only
  have hx : (m.1 + ((n : ℤ) : ℚ) / sr) * sr = m.1 * sr + (n : ℚ) := by
    push_cast; field_simp
  rw [hx, nearestIdx_shift N n (m.1 * sr) hN hon]
  congr 1
  have := sliceStop_shift N n ((nearestIdx N (m.1 * sr) : ℤ) + rhe (m.2 * sr)) (by omega)
  rw [← this]
  congr 1
  push_cast
  ring

/-! ### `starts` and `segMarks` over a concatenation -/

theorem starts_append (a c : List ℕ) (acc : ℕ) :
    starts (a ++ c) acc = starts a acc ++ starts c (acc + sumN a) := by
  induction a generalizing acc with
  | nil => simp [starts, sumN]
  | cons x xs ih =>
    simp only [List.cons_append, starts, sumN, ih, List.cons.injEq, true_and]
    rw [Nat.add_assoc]

theorem segMarks_append (sr : ℚ) (sel : Seg → Mark) (a c : List Seg) (sa sc : List ℕ)
    (h : sa.length = a.length) :
    segMarks sr sel (a ++ c) (sa ++ sc) = segMarks sr sel a sa ++ segMarks sr sel c sc := by
  induction a generalizing sa with
  | nil =>
    have : sa = [] := List.eq_nil_of_length_eq_zero (by simpa using h)
    subst this
    cases c <;> cases sc <;> simp [segMarks]
  | cons x xs ih =>
    cases sa with
    | nil => simp at h
    | cons s ss =>
      simp only [List.cons_append, segMarks]
      rw [ih ss (by simpa using h)]
      split <;> simp

/-- moving the start offset of a group of segments by `n` samples moves each of their segment-bound
    markers by `n` samples in time -/
theorem segMarks_shift (sr : ℚ) (sel : Seg → Mark) (c : List Seg) (nc : List ℕ) (acc n : ℕ) :
    segMarks sr sel c (starts nc (acc + n)) = (segMarks sr sel c (starts nc acc)).map (shiftMark sr n) := by
  induction c generalizing nc acc with
  | nil => cases nc <;> simp [segMarks]
  | cons x xs ih =>
    cases nc with
    | nil => simp [segMarks, starts]
    | cons k ks =>
      simp only [starts, segMarks]
      have e : acc + n + k = (acc + k) + n := by omega
      rw [e, ih ks (acc + k)]
      split
      · simp only [List.map_cons, List.cons.injEq, and_true]
        simp only [shiftMark, Prod.mk.injEq, and_true]
        push_cast
        ring
      · rfl

/-- the segment-bound markers of `pre ++ post` split into those of `pre` and those of `post` -/
theorem segMarks_split (sr : ℚ) (sel : Seg → Mark) (pre post : List Seg) (np nq : List ℕ)
    (hp : np.length = pre.length) :
    segMarks sr sel (pre ++ post) (starts (np ++ nq) 0) =
      segMarks sr sel pre (starts np 0) ++ segMarks sr sel post (starts nq (sumN np)) := by
  rw [starts_append, segMarks_append sr sel pre post _ _ (by rw [starts_length, hp])]
  simp

/-- ... and after inserting a marker-free segment of `n` samples between them, the markers of
    `post` are moved by `n` samples while those of `pre` stay -/
theorem segMarks_insert (sr : ℚ) (sel : Seg → Mark) (pre post : List Seg) (new : Seg)
    (hnew : (sel new).2 = 0) (np nq : List ℕ) (n : ℕ) (hp : np.length = pre.length) :
    segMarks sr sel (pre ++ new :: post) (starts (np ++ n :: nq) 0) =
      segMarks sr sel pre (starts np 0) ++
        (segMarks sr sel post (starts nq (sumN np))).map (shiftMark sr n) := by
  rw [starts_append, segMarks_append sr sel pre (new :: post) _ _ (by rw [starts_length, hp])]
  simp only [Nat.zero_add, starts, segMarks, hnew, ne_eq, not_true_eq_false, if_false]
  rw [segMarks_shift]

/-! ### resolution and counting with a segment inserted -/

/-- without waituntils the resolved durations do not depend on the elapsed time -/
theorem resolveGo_nowait_indep (l : List Seg) (el el' : ℚ) (h : ∀ s ∈ l, s.fn.isWait = false) :
    resolveGo l el = resolveGo l el' := by
  induction l generalizing el el' with
  | nil => rfl
  | cons s rest ih =>
    have hs := h s (by simp)
    simp only [resolveGo, hs, Bool.false_eq_true, if_false]
    split
    · rename_i d _
      rw [ih (el + d) (el' + d) (fun x hx => h x (by simp [hx]))]
    · rfl

theorem countsGo_of_all (sr : ℚ) (ds : List ℚ) (h : ∀ d ∈ ds, 2 ≤ segCount d sr) :
    countsGo sr ds = .ok (ds.map (fun d => (segCount d sr).toNat)) := by
  obtain ⟨ns, hn⟩ := (countsGo_isOk_iff sr ds).mpr h
  rw [hn, (countsGo_ok sr ds ns hn).2]

/-- the segment record `insertSegment` creates -/
def newSeg (nm : String) (fn : Fn) (args : List Val) (dur : Val) : Seg :=
  { name := nm, fn := fn, args := args, dur := dur }

/-- an accepted `insertSegment` at position `|pre|` of `pre ++ post` yields, up to names, the
    segment list `pre ++ new :: post`; markers and sample rate are untouched -/
theorem insertSegment_split (b : BP) (pre post : List Seg) (fn : Fn) (args : List Val) (dur name : Val)
    (hb : b.segs = pre ++ post)
    (h : (b.insertSegment (pre.length : ℤ) fn args dur name).err = none) :
    ∃ nm, (b.insertSegment (pre.length : ℤ) fn args dur name).st.segs.map Seg.body =
        (pre ++ newSeg nm fn args dur :: post).map Seg.body ∧
      (b.insertSegment (pre.length : ℤ) fn args dur name).st.marker1 = b.marker1 ∧
      (b.insertSegment (pre.length : ℤ) fn args dur name).st.marker2 = b.marker2 ∧
      (b.insertSegment (pre.length : ℤ) fn args dur name).st.SR = b.SR := by
  unfold BP.insertSegment at *
  by_cases hp : Gen.insertPosBad (pre.length : ℤ) = true
  · simp [hp] at h
  · cases hn : BP.insertName fn name with
    | error e => simp [hp, hn] at h
    | ok nm =>
      refine ⟨nm, ?_⟩
      simp only [hp, Bool.false_eq_true, if_false, and_self, and_true]
      rw [BP.renumber_body]
      have hne : ((pre.length : ℤ) = -1) = False := by simp
      simp only [BP.insertSegs, hne, if_false, BP.insertAt, Int.toNat_natCast, hb, newSeg]
      simp

/-- **Forging with one ordinary segment inserted.**  `b.segs = pre ++ post` with no waituntil in
    `post`; an ordinary callable with numeric duration `d` is inserted at position `|pre|` and the
    call is accepted.  If `b` forges (to the counts `cnt ds`), the new blueprint forges iff the new
    segment gets at least two samples, and then to the counts with `round(d·SR)` inserted. -/
theorem forge_insert (b : BP) (pre post : List Seg) (fn : Fn) (args : List Val) (d : ℚ) (name : Val)
    (hb : b.segs = pre ++ post) (hpost : ∀ s ∈ post, s.fn.isWait = false) (hfn : fn.special = false)
    (hacc : (b.insertSegment (pre.length : ℤ) fn args (.num d) name).err = none)
    (f : Forged) (hf : forgeBP b = .ok f) :
    ∃ sr dp dq nm, b.SR = .num sr ∧ b.resolveWaits = .ok (dp ++ dq) ∧ dp.length = pre.length ∧
      dq.length = post.length ∧
      f = assemble b sr ((dp ++ dq).map (fun x => (rhe (x * sr)).toNat)) ∧
      (2 ≤ rhe (d * sr) →
        forgeBP (b.insertSegment (pre.length : ℤ) fn args (.num d) name).st =
          .ok (assemble { b with segs := pre ++ newSeg nm fn args (.num d) :: post } sr
            (dp.map (fun x => (rhe (x * sr)).toNat) ++ (rhe (d * sr)).toNat ::
              dq.map (fun x => (rhe (x * sr)).toNat)))) ∧
      (rhe (d * sr) < 2 →
        forgeBP (b.insertSegment (pre.length : ℤ) fn args (.num d) name).st = .error .segdur) := by
  obtain ⟨sr, ds, ns, hsr, hd, hn, hbs, hfa⟩ := (forge_ok_iff b f).mp hf
  obtain ⟨h2, hns⟩ := countsGo_ok sr ds ns hn
  obtain ⟨nm, hbody, hm1, hm2, hSR⟩ := insertSegment_split b pre post fn args (.num d) name hb hacc
  have hd' := hd
  unfold BP.resolveWaits at hd'
  rw [hb] at hd'
  obtain ⟨dp, dq, hp, hq, rfl, hpl⟩ := resolveGo_append_inv pre post 0 ds hd'
  have hql : dq.length = post.length := resolveGo_length _ _ _ hq
  set b2 : BP := { b with segs := pre ++ newSeg nm fn args (.num d) :: post } with hb2
  have hforge : forgeBP (b.insertSegment (pre.length : ℤ) fn args (.num d) name).st = forgeBP b2 :=
    forgeBP_body _ _ hbody hm1 hm2 hSR
  -- resolution of the new list
  have hw : fn.isWait = false := by
    simp [Fn.isWait, hfn]
  have hres : b2.resolveWaits = .ok (dp ++ d :: dq) := by
    unfold BP.resolveWaits
    apply resolveGo_append pre _ 0 dp (d :: dq) hp
    simp only [resolveGo, newSeg, hw, Bool.false_eq_true, if_false]
    rw [resolveGo_nowait_indep post _ (0 + sumR dp) hpost, hq]
    rfl
  have hbad : badSpecial b2 = false := by
    have h0 : badSpecial b = false := hbs
    unfold badSpecial at h0 ⊢
    rw [hb] at h0
    simp only [hb2, List.any_append, List.any_cons, Bool.or_eq_false_iff] at h0 ⊢
    refine ⟨h0.1, ?_, h0.2⟩
    simp [newSeg, hfn]
  refine ⟨sr, dp, dq, nm, hsr, hd, hpl, hql, by rw [hfa, hns]; rfl, ?_, ?_⟩
  · intro hn2
    rw [hforge]
    have hall : ∀ x ∈ dp ++ d :: dq, 2 ≤ segCount x sr := by
      intro x hx
      simp only [List.mem_append, List.mem_cons] at hx
      rcases hx with hx | rfl | hx
      · exact h2 x (by simp [hx])
      · exact hn2
      · exact h2 x (by simp [hx])
    have hc := countsGo_of_all sr _ hall
    apply (forge_ok_iff b2 _).mpr
    refine ⟨sr, _, _, hsr, hres, hc, hbad, ?_⟩
    simp only [List.map_append, List.map_cons, segCount]
    rfl
  · intro hlt
    rw [hforge]
    unfold forgeBP
    simp only [hb2, hsr] at hres ⊢
    simp only [hres]
    cases hc : countsGo sr (dp ++ d :: dq) with
    | ok ms =>
      have := (countsGo_ok sr _ ms hc).1 d (by simp)
      simp only [segCount] at this
      omega
    | error e =>
      obtain ⟨he, _⟩ := countsGo_error sr _ e hc
      simp [he]

/-! ### the marker lists of the earlier and the later segments -/

/-- segment-bound markers (as absolute markers) of the segments before the insertion point;
    `lens` are the sample counts of all segments -/
def earlierMarks (sr : ℚ) (sel : Seg → Mark) (pre : List Seg) (lens : List ℕ) : List Mark :=
  segMarks sr sel pre (starts (lens.take pre.length) 0)

/-- segment-bound markers (as absolute markers) of the segments from the insertion point on -/
def laterMarks (sr : ℚ) (sel : Seg → Mark) (pre post : List Seg) (lens : List ℕ) : List Mark :=
  segMarks sr sel post (starts (lens.drop pre.length) (sumN (lens.take pre.length)))

/-- sample `k` lies in the window `w` -/
def onAt (w : ℕ × ℕ) (k : ℕ) : Prop := w.1 ≤ k ∧ k < w.2

theorem paint_on_iff_marks (N : ℕ) (sr : ℚ) (ms : List Mark) (k : ℕ) (h : k < (paint N (ms.map (window N sr))).length) :
    (paint N (ms.map (window N sr)))[k] = 1 ↔ ∃ m ∈ ms, onAt (window N sr m) k := by
  rw [paint_on_iff]
  constructor
  · rintro ⟨w, hw, h1, h2⟩
    obtain ⟨m, hm, rfl⟩ := List.mem_map.mp hw
    exact ⟨m, hm, h1, h2⟩
  · rintro ⟨m, hm, h1, h2⟩
    exact ⟨_, List.mem_map.mpr ⟨m, hm, rfl⟩, h1, h2⟩

/-- the later marks are exactly the segment-bound markers of the later segments, each placed at
    its segment's start sample (sum of the counts of all segments before it) plus its delay -/
theorem laterMarks_mem (sr : ℚ) (sel : Seg → Mark) (pre post : List Seg) (lens : List ℕ)
    (hl : lens.length = pre.length + post.length) (m : Mark) :
    m ∈ laterMarks sr sel pre post lens ↔
      ∃ (j : ℕ) (_ : j < post.length), (sel post[j]).2 ≠ 0 ∧
        m = ((((sumN (lens.take (pre.length + j)) : ℕ) : ℤ) : ℚ) / sr + (sel post[j]).1, (sel post[j]).2) := by
  unfold laterMarks
  have hsl : (starts (lens.drop pre.length) (sumN (lens.take pre.length))).length = post.length := by
    rw [starts_length]; simp; omega
  rw [segMarks_mem sr sel post _ hsl]
  have key : ∀ j (hj : j < (starts (lens.drop pre.length) (sumN (lens.take pre.length))).length),
      (starts (lens.drop pre.length) (sumN (lens.take pre.length)))[j] = sumN (lens.take (pre.length + j)) := by
    intro j hj
    rw [starts_getElem, ← sumN_append, ← List.take_add]
  constructor
  · rintro ⟨j, h1, h2, h3, h4⟩
    exact ⟨j, h1, h3, by rw [h4, key j h2]⟩
  · rintro ⟨j, h1, h3, h4⟩
    have h2 : j < (starts (lens.drop pre.length) (sumN (lens.take pre.length))).length := by omega
    exact ⟨j, h1, h2, h3, by rw [h4, key j h2]⟩

/-! ### the marker arrays before and after the insertion -/

theorem paint_split_iff (N : ℕ) (sr : ℚ) (A E L : List Mark) (k : ℕ)
    (h : k < (paint N ((A ++ (E ++ L)).map (window N sr))).length) :
    (paint N ((A ++ (E ++ L)).map (window N sr)))[k] = 1 ↔
      (∃ m ∈ A ++ E, onAt (window N sr m) k) ∨ (∃ m ∈ L, onAt (window N sr m) k) := by
  rw [paint_on_iff_marks]
  constructor
  · rintro ⟨m, hm, ho⟩
    simp only [List.mem_append] at hm
    rcases hm with hm | hm | hm
    · exact Or.inl ⟨m, by simp [hm], ho⟩
    · exact Or.inl ⟨m, by simp [hm], ho⟩
    · exact Or.inr ⟨m, hm, ho⟩
  · rintro (⟨m, hm, ho⟩ | ⟨m, hm, ho⟩)
    · simp only [List.mem_append] at hm
      exact ⟨m, by simp only [List.mem_append]; tauto, ho⟩
    · exact ⟨m, by simp only [List.mem_append]; tauto, ho⟩

theorem paint_split_shift_iff (N n : ℕ) (sr : ℚ) (A E L : List Mark) (k : ℕ)
    (h : k < (paint N ((A ++ (E ++ L.map (shiftMark sr n))).map (window N sr))).length) :
    (paint N ((A ++ (E ++ L.map (shiftMark sr n))).map (window N sr)))[k] = 1 ↔
      (∃ m ∈ A ++ E, onAt (window N sr m) k) ∨ (∃ m ∈ L, onAt (window N sr (shiftMark sr n m)) k) := by
  rw [paint_split_iff]
  constructor
  · rintro (h1 | ⟨m, hm, ho⟩)
    · exact Or.inl h1
    · obtain ⟨m0, hm0, rfl⟩ := List.mem_map.mp hm
      exact Or.inr ⟨m0, hm0, ho⟩
  · rintro (h1 | ⟨m, hm, ho⟩)
    · exact Or.inl h1
    · exact Or.inr ⟨_, List.mem_map.mpr ⟨m, hm, rfl⟩, ho⟩

/-- the two marker arrays of a channel assembled over `pre ++ post` -/
theorem assemble_split_m (b : BP) (pre post : List Seg) (hb : b.segs = pre ++ post) (sr : ℚ)
    (np nq : List ℕ) (hp : np.length = pre.length) :
    (assemble b sr (np ++ nq)).m1 = paint (sumN (np ++ nq)) ((b.marker1 ++
        (segMarks sr (·.m1) pre (starts np 0) ++ segMarks sr (·.m1) post (starts nq (sumN np)))).map
          (window (sumN (np ++ nq)) sr)) ∧
    (assemble b sr (np ++ nq)).m2 = paint (sumN (np ++ nq)) ((b.marker2 ++
        (segMarks sr (·.m2) pre (starts np 0) ++ segMarks sr (·.m2) post (starts nq (sumN np)))).map
          (window (sumN (np ++ nq)) sr)) := by
  simp only [assemble, hb, segMarks_split sr _ pre post np nq hp, and_self]

/-- ... and over `pre ++ new :: post` with a marker-free `new` of `n` samples -/
theorem assemble_insert_m (b2 : BP) (pre post : List Seg) (new : Seg) (hb : b2.segs = pre ++ new :: post)
    (h1 : new.m1.2 = 0) (h2 : new.m2.2 = 0) (sr : ℚ) (np nq : List ℕ) (n : ℕ) (hp : np.length = pre.length) :
    (assemble b2 sr (np ++ n :: nq)).m1 = paint (sumN (np ++ n :: nq)) ((b2.marker1 ++
        (segMarks sr (·.m1) pre (starts np 0) ++
          (segMarks sr (·.m1) post (starts nq (sumN np))).map (shiftMark sr n))).map
          (window (sumN (np ++ n :: nq)) sr)) ∧
    (assemble b2 sr (np ++ n :: nq)).m2 = paint (sumN (np ++ n :: nq)) ((b2.marker2 ++
        (segMarks sr (·.m2) pre (starts np 0) ++
          (segMarks sr (·.m2) post (starts nq (sumN np))).map (shiftMark sr n))).map
          (window (sumN (np ++ n :: nq)) sr)) := by
  simp only [assemble, hb, segMarks_insert sr (·.m1) pre post new h1 np nq n hp,
    segMarks_insert sr (·.m2) pre post new h2 np nq n hp, and_self]

theorem sumN_insert (np nq : List ℕ) (n : ℕ) : sumN (np ++ n :: nq) = sumN (np ++ nq) + n := by
  simp only [sumN_append, sumN]; omega

/-! ### any forged blueprint, split at any point; blueprints sharing a waituntil-free suffix -/

/-- a waituntil-free list that resolves resolves to its stored durations, whatever the elapsed time -/
theorem resolveGo_nowait_ok (l : List Seg) (el : ℚ) (dq : List ℚ) (h : ∀ s ∈ l, s.fn.isWait = false)
    (hr : resolveGo l el = .ok dq) : dq = l.filterMap durOf? := by
  induction l generalizing el dq with
  | nil => simp only [resolveGo, Except.ok.injEq] at hr; subst hr; rfl
  | cons s rest ih =>
    have hs := h s (by simp)
    simp only [resolveGo, hs, Bool.false_eq_true, if_false] at hr
    split at hr
    · rename_i d hd
      obtain ⟨ms, hm, rfl⟩ := consOk_ok _ _ _ hr
      rw [ih (el + d) ms (fun x hx => h x (by simp [hx])) hm]
      simp [durOf?, hd]
    · simp at hr

theorem assemble_body (a b : BP) (h : a.segs.map Seg.body = b.segs.map Seg.body)
    (h1 : a.marker1 = b.marker1) (h2 : a.marker2 = b.marker2) (sr : ℚ) (ns : List ℕ) :
    assemble a sr ns = assemble b sr ns := by
  simp only [assemble, h1, h2, mkBlocks_body' sr _ _ ns h, (segMarks_body sr _ _ _ h).1,
    (segMarks_body sr _ _ _ h).2]

/-- **A forged blueprint split at an arbitrary point.**  If the segment list is, up to names,
    `pre ++ post`, the forged channel is assembled from counts `np ++ nq` (one per segment of `pre`
    resp. `post`, each `round(d_i·SR) ≥ 2`), and its marker arrays are painted from the absolute
    markers, the segment-bound markers of `pre` placed from sample 0 and those of `post` placed from
    sample `Σ np`.  When `post` has no waituntil, `nq` are the rounded counts of the *stored*
    durations of `post` - they do not depend on `pre`. -/
theorem forge_split (b : BP) (pre post : List Seg) (hb : b.segs.map Seg.body = (pre ++ post).map Seg.body)
    (f : Forged) (hf : forgeBP b = .ok f) :
    ∃ sr np nq, b.SR = .num sr ∧ np.length = pre.length ∧ nq.length = post.length ∧
      f.blocks.map Blk.len = np ++ nq ∧ f.N = sumN (np ++ nq) ∧
      f.m1 = paint (sumN (np ++ nq)) ((b.marker1 ++
        (segMarks sr (·.m1) pre (starts np 0) ++ segMarks sr (·.m1) post (starts nq (sumN np)))).map
          (window (sumN (np ++ nq)) sr)) ∧
      f.m2 = paint (sumN (np ++ nq)) ((b.marker2 ++
        (segMarks sr (·.m2) pre (starts np 0) ++ segMarks sr (·.m2) post (starts nq (sumN np)))).map
          (window (sumN (np ++ nq)) sr)) ∧
      ((∀ s ∈ post, s.fn.isWait = false) →
        nq = (post.filterMap durOf?).map (fun x => (rhe (x * sr)).toNat)) ∧
      (∃ dp, resolveGo pre 0 = .ok dp ∧ np = dp.map (fun x => (rhe (x * sr)).toNat)) ∧
      (∀ x ∈ np ++ nq, 2 ≤ x) := by
  obtain ⟨sr, ds, ns, hsr, hd, hn, _, hfa⟩ := (forge_ok_iff b f).mp hf
  obtain ⟨hge, hns⟩ := countsGo_ok sr ds ns hn
  have hd' : resolveGo (pre ++ post) 0 = .ok ds := by
    rw [← resolveGo_body b.segs (pre ++ post) 0 hb]; exact hd
  obtain ⟨dp, dq, hpres, hq, rfl, hpl⟩ := resolveGo_append_inv pre post 0 ds hd'
  have hql : dq.length = post.length := resolveGo_length _ _ _ hq
  have hlenb : b.segs.length = pre.length + post.length := by
    have := congrArg List.length hb; simpa using this
  have hnsplit : ns = dp.map (fun x => (rhe (x * sr)).toNat) ++ dq.map (fun x => (rhe (x * sr)).toNat) := by
    rw [hns, List.map_append]; rfl
  have hnp : (dp.map (fun x => (rhe (x * sr)).toNat)).length = pre.length := by simp [hpl]
  have hasm : assemble b sr ns = assemble { b with segs := pre ++ post } sr ns :=
    assemble_body b { b with segs := pre ++ post } hb rfl rfl sr ns
  have hsplit := assemble_split_m { b with segs := pre ++ post } pre post rfl sr _
    (dq.map (fun x => (rhe (x * sr)).toNat)) hnp
  rw [← hnsplit, ← hasm, ← hfa] at hsplit
  refine ⟨sr, dp.map (fun x => (rhe (x * sr)).toNat), dq.map (fun x => (rhe (x * sr)).toNat), hsr, hnp,
    by simp [hql], ?_, ?_, ?_, ?_, ?_, ⟨dp, hpres, rfl⟩, ?_⟩
  · rw [hfa]; simp only [assemble]
    rw [mkBlocks_lens sr b.segs ns (by rw [hnsplit]; simp [hpl, hql, hlenb]), hnsplit]
  · rw [hfa, ← hnsplit]; rfl
  · rw [← hnsplit]; exact hsplit.1
  · rw [← hnsplit]; exact hsplit.2
  · intro hpost
    rw [resolveGo_nowait_ok post _ dq hpost hq]
  · intro x hx
    rw [← hnsplit, hns] at hx
    obtain ⟨y, hy, rfl⟩ := List.mem_map.mp hx
    have := hge y hy
    omega

/-- later marks when the start offset of the suffix grows by `n` samples -/
theorem laterMarks_shift (sr : ℚ) (sel : Seg → Mark) (pre1 pre2 post : List Seg) (l1 l2 : List ℕ) (n : ℕ)
    (hdrop : l2.drop pre2.length = l1.drop pre1.length)
    (hsum : sumN (l2.take pre2.length) = sumN (l1.take pre1.length) + n) :
    laterMarks sr sel pre2 post l2 = (laterMarks sr sel pre1 post l1).map (shiftMark sr n) := by
  unfold laterMarks
  rw [hdrop, hsum, segMarks_shift]

theorem earlierMarks_eq (sr : ℚ) (sel : Seg → Mark) (pre : List Seg) (np nq : List ℕ) (h : np.length = pre.length) :
    earlierMarks sr sel pre (np ++ nq) = segMarks sr sel pre (starts np 0) := by
  unfold earlierMarks
  rw [List.take_left' h]

theorem laterMarks_eq (sr : ℚ) (sel : Seg → Mark) (pre post : List Seg) (np nq : List ℕ) (h : np.length = pre.length) :
    laterMarks sr sel pre post (np ++ nq) = segMarks sr sel post (starts nq (sumN np)) := by
  unfold laterMarks
  rw [List.take_left' h, List.drop_left' h]

/-! ### `removeSegment` and `changeDuration` keep a suffix -/

/-- removing the segment at position `|pre|` of `pre ++ x :: post` leaves, up to names,
    `pre ++ post`; markers and sample rate are untouched -/
theorem removeSegment_split (b : BP) (pre post : List Seg) (x : Seg) (name : String)
    (hb : b.segs = pre ++ x :: post) (hi : b.indexOf? name = some pre.length) :
    (b.removeSegment name).err = none ∧
    (b.removeSegment name).st.segs.map Seg.body = (pre ++ post).map Seg.body ∧
    (b.removeSegment name).st.marker1 = b.marker1 ∧ (b.removeSegment name).st.marker2 = b.marker2 ∧
    (b.removeSegment name).st.SR = b.SR := by
  unfold BP.removeSegment
  simp only [hi, and_true, true_and]
  rw [BP.renumber_body, hb]
  congr 1
  rw [List.eraseIdx_append_of_length_le (Nat.le_refl _)]
  simp

theorem setDur_not_target (tgts : List String) (d : ℚ) (s : Seg) (h : tgts.contains s.name = false) :
    BP.setDur tgts d s = s := by
  unfold BP.setDur
  rw [if_neg (by rw [h]; simp)]

/-- `changeDuration` that does not address any segment of the suffix `post` leaves `post` as it is
    (and never touches markers or the sample rate) -/
theorem changeDuration_suffix (b : BP) (name : String) (dur : Val) (all : Bool) (pre post : List Seg)
    (hb : b.segs = pre ++ post)
    (hnt : ∀ s ∈ post, (b.targets name all).2.contains s.name = false) :
    ∃ pre', pre'.length = pre.length ∧ (b.changeDuration name dur all).st.segs = pre' ++ post ∧
      (b.changeDuration name dur all).st.marker1 = b.marker1 ∧
      (b.changeDuration name dur all).st.marker2 = b.marker2 ∧
      (b.changeDuration name dur all).st.SR = b.SR := by
  unfold BP.changeDuration
  split
  · rename_i d
    split
    · exact ⟨pre, rfl, hb, rfl, rfl, rfl⟩
    · split
      · exact ⟨pre, rfl, hb, rfl, rfl, rfl⟩
      · split
        · exact ⟨pre, rfl, hb, rfl, rfl, rfl⟩
        · refine ⟨pre.map (BP.setDur (b.targets name all).2 d), by simp, ?_, rfl, rfl, rfl⟩
          simp only [hb, List.map_append, List.append_cancel_left_eq]
          conv_rhs => rw [← List.map_id post]
          apply List.map_congr_left
          intro s hs
          exact setDur_not_target _ _ _ (hnt s hs)
  · exact ⟨pre, rfl, hb, rfl, rfl, rfl⟩

end BB
