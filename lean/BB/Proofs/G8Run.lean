/-
  BB.Proofs.G8Run — a small total-correctness calculus for the programs of BB.Model.Heap.

  `Runs base r p h Q`: the program `p`, run for owner `r` on heap `h`, does NOT fault and its
  result and final heap satisfy `Q`.
-/
import BB.Proofs.Heap

namespace BB.Heap

/-! ### `Prog` is a lawful monad -/

theorem Prog.bind_pure_comp_aux {α : Type} (p : Prog α) : p.bind Prog.pure = p := by
  induction p with
  | pure a => rfl
  | alloc k s c ih => simp only [Prog.bind]; congr 1; funext a; exact ih a
  | write a s c ih => simp only [Prog.bind]; congr 1; funext u; exact ih u
  | read a c ih => simp only [Prog.bind]; congr 1; funext x; exact ih x
  | fail => rfl

theorem Prog.bind_assoc_aux {α β γ : Type} (p : Prog α) (f : α → Prog β) (g : β → Prog γ) :
    (p.bind f).bind g = p.bind (fun a => (f a).bind g) := by
  induction p with
  | pure a => rfl
  | alloc k s c ih => simp only [Prog.bind]; congr 1; funext a; exact ih a
  | write a s c ih => simp only [Prog.bind]; congr 1; funext u; exact ih u
  | read a c ih => simp only [Prog.bind]; congr 1; funext x; exact ih x
  | fail => rfl

instance : LawfulMonad Prog := LawfulMonad.mk'
  (id_map := fun x => Prog.bind_pure_comp_aux x)
  (pure_bind := fun _ _ => rfl)
  (bind_assoc := fun x f g => Prog.bind_assoc_aux x f g)

/-! ### running a sequential composition -/

theorem execB_bind {α β : Type} (base : Nat) (r : Owner) (p : Prog α) (f : α → Prog β) :
    ∀ h : Heap, execB base r (p >>= f) h =
      match execB base r p h with
      | some (x, h1) => execB base r (f x) h1
      | none => none := by
  show ∀ h : Heap, execB base r (p.bind f) h = _
  induction p with
  | pure a => intro h; rfl
  | alloc k s c ih =>
    intro h
    simp only [Prog.bind, execB]
    split
    · exact ih _ _
    · rfl
  | write a s c ih =>
    intro h
    simp only [Prog.bind, execB]
    split
    · split
      · exact ih _ _
      · rfl
    · rfl
  | read a c ih => intro h; simp only [Prog.bind, execB]; exact ih _ _
  | fail => intro h; rfl

/-- `p` runs for owner `r` on `h` without fault, and its result satisfies `Q` -/
def Runs {α : Type} (base : Nat) (r : Owner) (p : Prog α) (h : Heap) (Q : α → Heap → Prop) : Prop :=
  ∃ (x : α) (h' : Heap), execB base r p h = some (x, h') ∧ Q x h'

theorem runs_mono {α : Type} {base : Nat} {r : Owner} {p : Prog α} {h : Heap} {Q Q' : α → Heap → Prop}
    (hr : Runs base r p h Q) (hq : ∀ x h', Q x h' → Q' x h') : Runs base r p h Q' := by
  obtain ⟨x, h', he, hQ⟩ := hr
  exact ⟨x, h', he, hq x h' hQ⟩

theorem runs_pure {α : Type} {base : Nat} {r : Owner} {a : α} {h : Heap} {Q : α → Heap → Prop}
    (hq : Q a h) : Runs base r (Pure.pure a : Prog α) h Q := ⟨a, h, rfl, hq⟩

theorem runs_bind {α β : Type} {base : Nat} {r : Owner} {p : Prog α} {f : α → Prog β} {h : Heap}
    {Q : β → Heap → Prop} (hp : Runs base r p h (fun x h1 => Runs base r (f x) h1 Q)) :
    Runs base r (p >>= f) h Q := by
  obtain ⟨x, h1, he, y, h2, he2, hQ⟩ := hp
  refine ⟨y, h2, ?_, hQ⟩
  rw [execB_bind, he]
  exact he2

/-- whatever a run establishes, it also only extends the heap in the disciplined way, keeps it
    closed and writes nothing below `base` but validation caches -/
theorem runs_frame {α : Type} {base : Nat} {r : Owner} {p : Prog α} {h : Heap} {Q : α → Heap → Prop}
    (hr : Runs base r p h Q) :
    Runs base r p h (fun x h' => Q x h' ∧ Ext r h h' ∧ (Closed h → Closed h') ∧ PureExt base h h') := by
  obtain ⟨x, h', he, hQ⟩ := hr
  exact ⟨x, h', he, hQ, execB_ext base r p h h' x he, fun hc => execB_closed base r p h h' x hc he,
    execB_pure base r p h h' x he⟩

theorem runs_and {α : Type} {base : Nat} {r : Owner} {p : Prog α} {h : Heap} {Q Q' : α → Heap → Prop}
    (hr : Runs base r p h Q) (hq : ∀ x h', execB base r p h = some (x, h') → Q' x h') :
    Runs base r p h (fun x h' => Q x h' ∧ Q' x h') := by
  obtain ⟨x, h', he, hQ⟩ := hr
  exact ⟨x, h', he, hQ, hq x h' he⟩

/-! ### the primitives -/

theorem runs_alloc {base : Nat} {r : Owner} {k : Kind} {slots : List (String × Slot)} {h : Heap}
    {Q : Addr → Heap → Prop} (hs : slotsOk h k r slots = true) (hq : Q h.length (h ++ [⟨k, r, slots⟩])) :
    Runs base r (palloc k slots) h Q :=
  ⟨h.length, h ++ [⟨k, r, slots⟩], by simp [palloc, execB, hs], hq⟩

theorem runs_write {base : Nat} {r : Owner} {a : Addr} {slots : List (String × Slot)} {h : Heap} {c : Cell}
    {Q : Unit → Heap → Prop} (hc : h[a]? = some c) (hw : writable r c = true)
    (hb : base ≤ a ∨ c.kind = .cache) (hs : slotsOk h c.kind c.owner slots = true)
    (hq : Q () (h.set a { c with slots := slots })) :
    Runs base r (pwrite a slots) h Q := by
  refine ⟨(), h.set a { c with slots := slots }, ?_, hq⟩
  have hb' : (decide (base ≤ a) || c.kind == .cache) = true := by
    rcases hb with hb | hb
    · simp [hb]
    · simp [hb]
  simp [pwrite, execB, hc, hw, hb', hs]

theorem runs_read {base : Nat} {r : Owner} {a : Addr} {h : Heap} {Q : Option Cell → Heap → Prop}
    (hq : Q h[a]? h) : Runs base r (pread a) h Q := ⟨h[a]?, h, rfl, hq⟩

theorem runs_cellAt {base : Nat} {r : Owner} {a : Addr} {h : Heap} {c : Cell} {Q : Cell → Heap → Prop}
    (hc : h[a]? = some c) (hq : Q c h) : Runs base r (cellAt a) h Q := by
  refine ⟨c, h, ?_, hq⟩
  show execB base r (pread a >>= _) h = _
  rw [execB_bind]
  simp only [pread, execB, hc]
  rfl

theorem runs_refAt {base : Nat} {r : Owner} {a : Addr} {k : String} {h : Heap} {c : Cell} {b : Addr}
    {Q : Addr → Heap → Prop} (hc : h[a]? = some c) (hk : lookupSlot c.slots k = some (.ref b)) (hq : Q b h) :
    Runs base r (refAt a k) h Q := by
  unfold refAt
  apply runs_bind
  apply runs_cellAt hc
  simp only [hk]
  exact runs_pure hq

theorem runs_setKey {base : Nat} {r : Owner} {a : Addr} {k : String} {v : Slot} {h : Heap} {c : Cell}
    {Q : Unit → Heap → Prop} (hc : h[a]? = some c) (hw : writable r c = true)
    (hb : base ≤ a ∨ c.kind = .cache) (hs : slotsOk h c.kind c.owner (upsertSlot c.slots k v) = true)
    (hq : Q () (h.set a { c with slots := upsertSlot c.slots k v })) :
    Runs base r (setKey a k v) h Q := by
  unfold setKey
  apply runs_bind
  apply runs_cellAt hc
  exact runs_write hc hw hb hs hq

/-! ### loops -/

/-- invariant rule for `foldlM`: `I done acc h` holds after the items `done` have been processed -/
theorem runs_foldlM {β γ : Type} {base : Nat} {r : Owner} (f : β → γ → Prog β)
    (I : List γ → β → Heap → Prop) (l : List γ) :
    ∀ (done : List γ) (b : β) (h : Heap), I done b h →
      (∀ (d : List γ) (x : γ) (rest : List γ) (acc : β) (h1 : Heap), done ++ l = d ++ x :: rest → I d acc h1 →
        Runs base r (f acc x) h1 (I (d ++ [x]))) →
      Runs base r (l.foldlM f b) h (I (done ++ l)) := by
  induction l with
  | nil =>
    intro done b h hi _
    simp only [List.foldlM_nil, List.append_nil]
    exact runs_pure hi
  | cons x xs ih =>
    intro done b h hi hstep
    simp only [List.foldlM_cons]
    apply runs_bind
    apply runs_mono (hstep done x xs b h rfl hi)
    intro acc h1 hI1
    have := ih (done ++ [x]) acc h1 hI1 (fun d y rest acc' h2 heq hI2 =>
      hstep d y rest acc' h2 (by rw [← heq]; simp) hI2)
    simpa using this

/-- invariant rule for `for x in l do body` (a body that never breaks out of the loop) -/
theorem runs_forIn {γ : Type} {base : Nat} {r : Owner} (f : γ → PUnit → Prog (ForInStep PUnit))
    (I : List γ → Heap → Prop) (l : List γ) :
    ∀ (done : List γ) (h : Heap), I done h →
      (∀ (d : List γ) (x : γ) (rest : List γ) (h1 : Heap), done ++ l = d ++ x :: rest → I d h1 →
        Runs base r (f x PUnit.unit) h1 (fun s h2 => s = ForInStep.yield PUnit.unit ∧ I (d ++ [x]) h2)) →
      Runs base r (forIn l PUnit.unit f) h (fun _ h2 => I (done ++ l) h2) := by
  induction l with
  | nil =>
    intro done h hi _
    simp only [List.forIn_nil, List.append_nil]
    exact runs_pure hi
  | cons x xs ih =>
    intro done h hi hstep
    simp only [List.forIn_cons]
    apply runs_bind
    apply runs_mono (hstep done x xs h rfl hi)
    intro s h1 hI1
    obtain ⟨hs, hI1⟩ := hI1
    subst hs
    have := ih (done ++ [x]) h1 hI1 (fun d y rest h2 heq hI2 =>
      hstep d y rest h2 (by rw [← heq]; simp) hI2)
    simpa using this

end BB.Heap
