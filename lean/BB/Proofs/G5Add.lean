/-
  BB.Proofs.G5Add — helper lemmas for property C16 (sequence concatenation):
  list predicates of `checkConsistency` over an append, copies of entries, dictionary equality
  of AWG settings, `forge` as a single pass over the positions, and the dependence of one forged
  position on the sequence it sits in.
-/
import BB.Proofs.Add
import BB.Proofs.Consistent
import BB.Proofs.ForgeSeq

namespace BB.G5
open BB BB.Sequence BB.Dict

/-! ### the list predicates of `checkConsistency` -/

theorem allEqLast_iff {α} [DecidableEq α] (l : List α) :
    allEqLast l = true ↔ ∀ x ∈ l, ∀ y ∈ l, x = y := by
  constructor
  · intro h x hx y hy
    exact allEqLast_any_two l h x y hx hy
  · intro h
    unfold allEqLast
    cases hl : l.getLast? with
    | none => rfl
    | some last =>
      simp only [List.all_eq_true, decide_eq_true_eq]
      intro x hx
      exact h x hx last (List.mem_of_getLast? hl)

theorem allSame_iff_forall {α} [DecidableEq α] (l : List α) :
    Element.allSame l = true ↔ ∀ x ∈ l, ∀ y ∈ l, x = y := by
  cases l with
  | nil => simp [Element.allSame]
  | cons a t =>
    simp only [Element.allSame, List.all_eq_true, decide_eq_true_eq]
    constructor
    · intro h x hx y hy
      have hx' : x = a := by
        rcases List.mem_cons.mp hx with rfl | hx
        · rfl
        · exact h x hx
      have hy' : y = a := by
        rcases List.mem_cons.mp hy with rfl | hy
        · rfl
        · exact h y hy
      rw [hx', hy']
    · intro h x hx
      exact h x (by simp [hx]) a (by simp)

theorem gapFree_of_positions {α : Type} (d : Dict ℤ α) (h : Positions d) : gapFree (Dict.keys d) = true := by
  by_cases hne : Dict.keys d = []
  · rw [hne]; exact gapFree_nil
  · rw [gapFree_iff _ hne]
    unfold Positions at h
    simpa [Dict.keys] using h

theorem mapM_append_ok {α β : Type} (f : α → Except Err β) (l₁ l₂ : List α) (r₁ r₂ : List β)
    (h1 : l₁.mapM f = .ok r₁) (h2 : l₂.mapM f = .ok r₂) : (l₁ ++ l₂).mapM f = .ok (r₁ ++ r₂) := by
  rw [List.mapM_append, h1, h2]
  rfl

theorem mapM_map_ok {α β γ : Type} (f : β → Except Err γ) (g : α → β) (l : List α) :
    (l.map g).mapM f = l.mapM (fun x => f (g x)) := by
  induction l with
  | nil => rfl
  | cons a t ih => rw [List.map_cons, mapM_cons_eq, mapM_cons_eq, ih]

theorem mapM_congr_ok {α β : Type} (f g : α → Except Err β) (l : List α) (h : ∀ x ∈ l, f x = g x) :
    l.mapM f = l.mapM g := by
  induction l with
  | nil => rfl
  | cons a t ih =>
    rw [mapM_cons_eq, mapM_cons_eq, h a (by simp), ih (fun x hx => h x (by simp [hx]))]

/-- a list of results, one per index, is what `mapM` returns -/
theorem mapM_ok_of_getElem {α β : Type} (f : α → Except Err β) (l : List α) (r : List β) (hl : r.length = l.length)
    (h : ∀ i (hi : i < l.length), f l[i] = .ok (r[i]'(by omega))) : l.mapM f = .ok r := by
  induction l generalizing r with
  | nil =>
    have : r = [] := List.eq_nil_of_length_eq_zero (by simpa using hl)
    subst this; rfl
  | cons a t ih =>
    cases r with
    | nil => simp at hl
    | cons b bs =>
      rw [mapM_cons_eq]
      have h0 := h 0 (by simp)
      simp only [List.getElem_cons_zero] at h0
      rw [h0]
      have := ih bs (by simpa using hl) (fun i hi => by
        have := h (i + 1) (by simp; omega)
        simpa using this)
      rw [this]

/-- two passes that both succeed are one pass of the composition, and conversely -/
theorem mapM_two_pass {α β γ : Type} (f : α → Except Err β) (g : β → Except Err γ) (l : List α) (out : List γ) :
    (match l.mapM f with | .error e => Except.error e | .ok r => r.mapM g) = .ok out ↔
    l.mapM (fun x => match f x with | .error e => Except.error e | .ok y => g y) = .ok out := by
  induction l generalizing out with
  | nil => simp [List.mapM_nil, pure, Except.pure]
  | cons a t ih =>
    rw [mapM_cons_eq, mapM_cons_eq]
    cases hfa : f a with
    | error e => simp
    | ok b =>
      simp only
      cases ht : t.mapM f with
      | error e =>
        simp only
        have := (ih []).not
        cases hg : g b with
        | error e2 => simp
        | ok c =>
          simp only
          cases hfused : t.mapM (fun x => match f x with | .error e => Except.error e | .ok y => g y) with
          | error e3 => simp
          | ok cs =>
            exfalso
            have := (ih cs).mpr hfused
            rw [ht] at this
            cases this
      | ok bs =>
        simp only
        rw [mapM_cons_eq]
        cases hg : g b with
        | error e2 => simp
        | ok c =>
          simp only
          have ih' := ih
          rw [ht] at ih'
          simp only at ih'
          cases hbs : bs.mapM g with
          | error e3 =>
            cases hfused : t.mapM (fun x => match f x with | .error e => Except.error e | .ok y => g y) with
            | error e4 => simp
            | ok cs =>
              exfalso
              have := (ih' cs).mpr hfused
              rw [hbs] at this
              cases this
          | ok cs =>
            have := (ih' cs).mp hbs
            rw [this]

/-! ### copies of entries -/



theorem getSR_copyEntry (en : Entry) : (copyEntry en).getSR = en.getSR := by
  cases en <;> rfl

theorem subChannels_dropName (s : SubSeq) : SubSeq.channels { s with name := "" } = SubSeq.channels s := rfl

theorem channels_copyEntry (en : Entry) : (copyEntry en).channels = en.channels := by
  cases en <;> rfl

theorem points_copyEntry (en : Entry) : (copyEntry en).points = en.points := by
  cases en <;> rfl



/-! ### dictionary equality of the AWG settings -/

section DictLemmas
variable {κ α : Type} [DecidableEq κ]

/-- `dict.__eq__` is transitive (no well-formedness needed) -/
theorem eqBy_trans (f : α → α → Bool) (hf : ∀ x y z, f x y = true → f y z = true → f x z = true)
    (a b c : Dict κ α) (h1 : eqBy f a b = true) (h2 : eqBy f b c = true) : eqBy f a c = true := by
  unfold eqBy at *
  simp only [Bool.and_eq_true, beq_iff_eq, List.all_eq_true] at *
  refine ⟨h1.1.trans h2.1, ?_⟩
  rintro ⟨k, v⟩ hm
  have h1' := h1.2 (k, v) hm
  simp only at h1' ⊢
  cases hw : get? b k with
  | none => simp [hw] at h1'
  | some w =>
    simp only [hw] at h1'
    have h2' := h2.2 (k, w) (mem_of_get?_eq_some k w hw)
    simp only at h2'
    cases hu : get? c k with
    | none => simp [hu] at h2'
    | some u =>
      simp only [hu] at h2'
      exact hf v w u h1' h2'

/-- equal well-formed dictionaries answer every look-up alike -/
theorem eqBy_get [DecidableEq α] {a b : Dict κ α} (ha : WF a) (hb : WF b)
    (h : eqBy (· == ·) a b = true) (k : κ) : get? a k = get? b k := by
  obtain ⟨_, hall⟩ := (eqBy_iff _ ha).mp h
  cases hk : get? a k with
  | some v =>
    obtain ⟨w, hw, hvw⟩ := hall k v hk
    rw [hw]
    simp only [beq_iff_eq] at hvw
    rw [hvw]
  | none =>
    cases hk2 : get? b k with
    | none => rfl
    | some w =>
      exfalso
      have : k ∈ keys b := (get?_isSome_iff b k).mp (by simp [hk2])
      have := (eqBy_keys _ ha hb h k).mp this
      have := (get?_isSome_iff a k).mpr this
      simp [hk] at this

theorem has_iff_mem_keys (d : Dict κ α) (k : κ) : has d k = true ↔ k ∈ keys d := by
  unfold has keys
  simp only [List.any_eq_true, decide_eq_true_eq, List.mem_map]

/-- storing under a key changes the key list in a way that only depends on the key list -/
theorem keys_upsert_congr {β : Type} (d : Dict κ α) (d2 : Dict κ β) (k : κ) (v : α) (w : β)
    (h : keys d = keys d2) : keys (upsert d k v) = keys (upsert d2 k w) := by
  by_cases hk : k ∈ keys d
  · rw [keys_upsert_of_mem d k v hk, keys_upsert_of_mem d2 k w (h ▸ hk), h]
  · rw [keys_upsert_of_not_mem d k v hk, keys_upsert_of_not_mem d2 k w (h ▸ hk), h]

end DictLemmas

/-! ### `forge` as one pass over the positions -/

/-- Kleisli composition in `Except Err`, spelled with `match` -/
def kcomp {α β γ : Type} (f : α → Except Err β) (g : β → Except Err γ) (x : α) : Except Err γ :=
  match f x with
  | .error e => .error e
  | .ok y => g y

theorem mapM_kcomp_split {α β γ : Type} (f : α → Except Err β) (g : β → Except Err γ) (l : List α) (out : List γ)
    (h : l.mapM (kcomp f g) = .ok out) : ∃ r, l.mapM f = .ok r ∧ r.mapM g = .ok out := by
  have := (mapM_two_pass f g l out).mpr h
  cases hl : l.mapM f with
  | error e => rw [hl] at this; cases this
  | ok r => rw [hl] at this; exact ⟨r, rfl, this⟩



/-- what `forge` does for position `i + 1` -/
def forgeStep (s : Sequence) (d f t : Bool) (i : Nat) : Except Err (Nat × ForgedPos) :=
  match Dict.get? s.data ((i + 1 : Nat) : Int) with
  | none => .error .key
  | some en => s.forgePos d f t (i + 1) en

theorem forgeStep_eq_kcomp (s : Sequence) (d f t : Bool) (i : Nat) :
    forgeStep s d f t i =
      kcomp (fun (i : Nat) => match Dict.get? s.data ((i + 1 : Nat) : Int) with
              | none => Except.error Err.key
              | some en => Except.ok (i + 1, en))
        (kcomp (fun x => (s.delayEntry d x.2).map (fun en => (x.1, en)))
          (kcomp (s.forgeEntry t) (s.filterEntry f))) i := by
  unfold forgeStep kcomp forgePos
  beta_reduce
  cases h : Dict.get? s.data ((i + 1 : Nat) : Int) with
  | none => rfl
  | some en =>
    simp only
    cases h2 : s.delayEntry d en with
    | error e => simp only [Except.map]
    | ok en' =>
      simp only [Except.map]
      cases s.forgeEntry t (i + 1, en') <;> rfl

/-- **`forge` succeeds exactly when** the sequence is consistent, has channels, and every position
    1..N forges; the result lists the positions in order -/
theorem forge_ok_iff_steps (s : Sequence) (d f t : Bool) (out : List (Nat × ForgedPos)) :
    s.forge d f t = .ok out ↔
      s.checkConsistency = .ok true ∧ (∃ c, s.channels = .ok c) ∧
        (List.range s.data.length).mapM (forgeStep s d f t) = .ok out := by
  constructor
  · intro h
    obtain ⟨hlen, hpos⟩ := forge_pos s d f t out h
    refine ⟨?_, ?_, ?_⟩
    · unfold forge at h
      split at h
      · cases h
      · cases h
      · assumption
    · unfold forge at h
      split at h
      · cases h
      · cases h
      · split at h
        · cases h
        · rename_i c hc; exact ⟨c, hc⟩
    · refine mapM_ok_of_getElem _ _ _ (by simpa using hlen) ?_
      · intro i hi
        simp only [List.length_range] at hi
        obtain ⟨en, hen, hf⟩ := hpos i (by omega)
        simp only [List.getElem_range]
        unfold forgeStep
        rw [hen]
        exact hf
  · rintro ⟨hc, ⟨c, hch⟩, hsteps⟩
    rw [mapM_congr_ok _ _ _ (fun i _ => forgeStep_eq_kcomp s d f t i)] at hsteps
    obtain ⟨ents, h0, h1⟩ := mapM_kcomp_split _ _ _ _ hsteps
    obtain ⟨delayed, h1, h2⟩ := mapM_kcomp_split _ _ _ _ h1
    obtain ⟨forged, h2, h3⟩ := mapM_kcomp_split _ _ _ _ h2
    have hents : s.entriesInOrder = .ok ents := h0
    unfold forge
    simp only [hc, hch, hents, h1, h2, h3]

/-! ### one forged position depends on the sequence only through its AWG settings and the
    position's sequencing entry -/

/-- the two sequences answer every look-up in their AWG settings alike -/
def SameSpecs (s1 s2 : Sequence) : Prop := ∀ k, Dict.get? s1.awgspecs k = Dict.get? s2.awgspecs k

theorem delayOf_congr {s1 s2 : Sequence} (h : SameSpecs s1 s2) : SeqCore.delayOf s1 = SeqCore.delayOf s2 := by
  funext ch
  unfold SeqCore.delayOf
  rw [h]

theorem getSR_congr {s1 s2 : Sequence} (h : SameSpecs s1 s2) : SeqCore.getSR s1 = SeqCore.getSR s2 := by
  unfold SeqCore.getSR
  rw [h]

theorem filterOf_congr {s1 s2 : Sequence} (h : SameSpecs s1 s2) : SeqCore.filterOf s1 = SeqCore.filterOf s2 := by
  funext ch
  unfold SeqCore.filterOf
  rw [h, getSR_congr h]

theorem delayElement_congr {s1 s2 : Sequence} (h : SameSpecs s1 s2) : delayElement s1 = delayElement s2 := by
  funext e
  unfold delayElement delaysFor
  rw [delayOf_congr h]

theorem delayEntry_congr {s1 s2 : Sequence} (h : SameSpecs s1 s2) (d : Bool) : delayEntry s1 d = delayEntry s2 d := by
  funext en
  unfold delayEntry
  rw [delayElement_congr h]

theorem withFilters_congr {s1 s2 : Sequence} (h : SameSpecs s1 s2) (f : Bool) : withFilters s1 f = withFilters s2 f := by
  funext c
  unfold withFilters attach
  rw [filterOf_congr h]

theorem filterEntry_congr {s1 s2 : Sequence} (h : SameSpecs s1 s2) (f : Bool) : filterEntry s1 f = filterEntry s2 f := by
  funext x
  unfold filterEntry
  rw [withFilters_congr h]

/-- the position label and the sequencing entry are passed through untouched -/
def reseat (p : Nat) (q : SeqSet) (r : Nat × ForgedPos) : Nat × ForgedPos := (p, { r.2 with sequencing := q })

theorem filterEntry_reseat (s : Sequence) (f : Bool) (p1 p2 : Nat) (q1 q2 : SeqSet) (b : Bool) (c : RawContent) :
    s.filterEntry f (p1, q1, b, c) = (s.filterEntry f (p2, q2, b, c)).map (reseat p1 q1) := by
  unfold filterEntry
  simp only
  cases c.mapM (fun c => (s.withFilters f c.2.1).map (fun a => (c.1, a, c.2.2))) <;> rfl

/-- **moving an entry**: forging the same entry in a sequence with the same AWG settings, at
    another position with another sequencing entry, gives the same content -/
theorem forgePos_reseat (s1 s2 : Sequence) (h : SameSpecs s1 s2) (d f t : Bool) (p1 p2 : Nat) (q1 q2 : SeqSet)
    (h1 : Dict.get? s1.sequencing (p1 : Int) = some q1) (h2 : Dict.get? s2.sequencing (p2 : Int) = some q2)
    (en : Entry) :
    s1.forgePos d f t p1 en = (s2.forgePos d f t p2 en).map (reseat p1 q1) := by
  unfold forgePos
  rw [delayEntry_congr h, filterEntry_congr h]
  cases s2.delayEntry d en with
  | error e => rfl
  | ok en' =>
    simp only
    unfold forgeEntry
    simp only [h1, h2]
    cases en' with
    | el e =>
      simp only
      cases e.getArrays t with
      | error er => rfl
      | ok arr =>
        simp only [Except.map]
        exact filterEntry_reseat s2 f p1 p2 q1 q2 false _
    | sub sub =>
      simp only
      cases forgeInner t sub with
      | error er => rfl
      | ok inner =>
        simp only [Except.map]
        exact filterEntry_reseat s2 f p1 p2 q1 q2 true _

/-- the copy `+` stores forges like the original entry -/
theorem forgePos_copyEntry (s : Sequence) (d f t : Bool) (p : Nat) (en : Entry) :
    s.forgePos d f t p (copyEntry en) = s.forgePos d f t p en := by
  cases en with
  | el e => rfl
  | sub sub =>
    unfold forgePos copyEntry delayEntry
    simp only
    by_cases hd : d = true
    · simp only [hd, if_true]
      cases sub.data.mapM (fun pe => (s.delayElement pe.2).map (fun e' => (pe.1, e'))) with
      | error e => rfl
      | ok dd =>
        simp only [Except.map]
        unfold forgeEntry
        simp only
        cases Dict.get? s.sequencing (p : Int) with
        | none => rfl
        | some sq => rfl
    · simp only [hd, if_false, Bool.false_eq_true]
      unfold forgeEntry
      simp only
      cases Dict.get? s.sequencing (p : Int) with
      | none => rfl
      | some sq => rfl

/-- forging an entry where it sits returns the position's label and sequencing entry -/
theorem forgePos_self_reseat (s : Sequence) (d f t : Bool) (p : Nat) (q : SeqSet)
    (h : Dict.get? s.sequencing (p : Int) = some q) (en : Entry) :
    (s.forgePos d f t p en).map (reseat p q) = s.forgePos d f t p en :=
  (forgePos_reseat s s (fun _ => rfl) d f t p p q q h h en).symm

/-- a pass whose steps are the steps of another pass followed by `h` returns the mapped list -/
theorem mapM_map_result {α β γ : Type} (f : α → Except Err β) (g : α → Except Err γ) (h : β → γ) (l : List α)
    (r : List β) (hf : l.mapM f = .ok r) (hg : ∀ x ∈ l, g x = (f x).map h) : l.mapM g = .ok (r.map h) := by
  induction l generalizing r with
  | nil =>
    simp only [List.mapM_nil, pure, Except.pure, Except.ok.injEq] at hf
    subst hf; rfl
  | cons a t ih =>
    rw [mapM_cons_eq] at hf ⊢
    rw [hg a (by simp)]
    cases hfa : f a with
    | error e => rw [hfa] at hf; cases hf
    | ok b =>
      rw [hfa] at hf
      simp only at hf
      cases ht : t.mapM f with
      | error e => rw [ht] at hf; cases hf
      | ok bs =>
        rw [ht] at hf
        simp only [Except.ok.injEq] at hf
        subst hf
        simp only [Except.map]
        rw [ih bs ht (fun x hx => hg x (by simp [hx]))]
        rfl

end BB.G5
