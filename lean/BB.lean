-- This module serves as the root of the `BB` library.
-- Import modules here that should be built as part of the library.
import BB.Basic
