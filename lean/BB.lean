-- root of the BB library (written by harness/mkroot.py)
import BB.Gen.K
import BB.Gen.KFloat
import BB.Gen.KReal
import BB.Model.Blueprint
import BB.Model.Codec
import BB.Model.Describe
import BB.Model.Element
import BB.Model.Forge
import BB.Model.Names
import BB.Model.Num
import BB.Model.Sequence
import BB.Model.Tools
import BB.Proofs.Blueprint
import BB.Proofs.Names
import BB.Properties.C05
